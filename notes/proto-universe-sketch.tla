---- MODULE U ----
\* Feasibility sketch (design round): universe, weakenings, Admits. Not framework code.
EXTENDS Integers, Sequences, FiniteSets, TLC, Json, SequencesExt, FiniteSetsExt

TBool == [k |-> "bool"]
TNum  == [k |-> "number"]
TStr  == [k |-> "string"]
TDyn  == [k |-> "dynamic"]
TList(e) == [k |-> "list", e |-> e]
TSet(e)  == [k |-> "set", e |-> e]
TTup(es) == [k |-> "tuple", es |-> es]

NoRf == [null |-> "U"]
K(ty, v)   == [ty |-> ty, st |-> "k", v |-> v]
Null(ty)   == [ty |-> ty, st |-> "null"]
Unk(ty, rf) == [ty |-> ty, st |-> "unk", rf |-> rf]

Q == -4..6            \* quarters: -1 .. 1.5
Nums == {K(TNum, [q |-> q]) : q \in {-4, -2, 0, 1, 2, 4, 6}}
Strs == {K(TStr, s) : s \in {<<>>, <<"a">>, <<"a","b">>, <<"b">>}}
Bools == {K(TBool, TRUE), K(TBool, FALSE)}
Prims == Nums \cup Strs \cup Bools

SeqsUpTo(S, n) == UNION {[1..m -> S] : m \in 0..n}
Lists(S, ety) == {K(TList(ety), s) : s \in SeqsUpTo(S, 2)}
Tups == {K(TTup(<<a.ty, b.ty>>), <<a, b>>) : a \in {K(TNum,[q|->0]), K(TNum,[q|->4])}, b \in {K(TStr,<<"a">>), K(TBool,TRUE)}}
Known == Prims \cup Lists(Nums, TNum) \cup Lists(Strs, TStr) \cup Tups

\* ---- ranges
NumLE(a, b) == a.q <= b.q
\* refinement menus true of a known primitive value
RfMenuNum(v) == {NoRf, [null |-> "F"],
                 [null |-> "F", lo |-> v.v, loInc |-> TRUE],
                 [null |-> "F", hi |-> v.v, hiInc |-> TRUE],
                 [null |-> "U", lo |-> [q |-> v.v.q - 1], loInc |-> FALSE],
                 [null |-> "F", lo |-> [q |-> v.v.q - 1], loInc |-> FALSE, hi |-> [q |-> v.v.q + 1], hiInc |-> FALSE],
                 [null |-> "F", lo |-> v.v, loInc |-> TRUE, hi |-> [q |-> v.v.q + 2], hiInc |-> TRUE]}
StrPrefixes(s) == {SubSeq(s, 1, n) : n \in 0..Len(s)}
RfMenuStr(v) == {NoRf, [null |-> "F"]} \cup {[null |-> "F", prefix |-> p] : p \in StrPrefixes(v.v) \ {<<>>}}
RfMenuColl(v) == {NoRf, [null |-> "F"], [null |-> "F", minLen |-> Len(v.v), maxLen |-> Len(v.v) + 1],
                  [null |-> "U", minLen |-> 0, maxLen |-> Len(v.v)]}
RfMenu(v) == CASE v.ty.k = "number" -> RfMenuNum(v)
               [] v.ty.k = "string" -> RfMenuStr(v)
               [] v.ty.k \in {"list", "set", "map"} -> RfMenuColl(v)
               [] OTHER -> {NoRf, [null |-> "F"]}

RECURSIVE Weak(_)
Weak(v) ==
  LET top == {Unk(v.ty, rf) : rf \in RfMenu(v)} IN
  IF v.st # "k" THEN {v}
  ELSE IF v.ty.k \in {"list", "tuple"} THEN
     LET n == Len(v.v)
         choices == [i \in 1..n |-> Weak(v.v[i])]
         combos == {f \in [1..n -> UNION {choices[i] : i \in 1..n}] : \A i \in 1..n : f[i] \in choices[i]}
     IN {[v EXCEPT !.v = f] : f \in combos} \cup top
  ELSE {v} \cup top

HasF(r, f) == f \in DOMAIN r
RECURSIVE Admits(_, _)
Conf(g, w) == w.k = "dynamic" \/ g = w   \* sketch: no nested dynamic here
Admits(a, c) ==
  CASE a.st = "null" -> c.st = "null"
    [] a.st = "unk" ->
         /\ Conf(c.ty, a.ty)
         /\ (a.rf.null = "F" => (c.st = "k" \/ (c.st = "unk" /\ c.rf.null = "F")))
         /\ (a.rf.null = "T" => c.st = "null")
         /\ (c.st = "k" /\ c.ty.k = "number") =>
               /\ (HasF(a.rf, "lo") => IF a.rf.loInc THEN a.rf.lo.q <= c.v.q ELSE a.rf.lo.q < c.v.q)
               /\ (HasF(a.rf, "hi") => IF a.rf.hiInc THEN c.v.q <= a.rf.hi.q ELSE c.v.q < a.rf.hi.q)
         /\ (c.st = "k" /\ c.ty.k = "string" /\ HasF(a.rf, "prefix")) => IsPrefix(a.rf.prefix, c.v)
         /\ (c.st = "k" /\ c.ty.k = "list" /\ HasF(a.rf, "minLen")) => (a.rf.minLen <= Len(c.v) /\ Len(c.v) <= a.rf.maxLen)
    [] a.st = "k" ->
         /\ c.st = "k" /\ c.ty = a.ty
         /\ IF a.ty.k \in {"list", "tuple"}
            THEN Len(a.v) = Len(c.v) /\ \A i \in 1..Len(a.v) : Admits(a.v[i], c.v[i])
            ELSE a.v = c.v

VARIABLES op, c1, c2, w1, w2
BinNum == {"Add", "Subtract", "Multiply", "LessThan", "GreaterThan", "Equals"}
Init == /\ op \in BinNum
        /\ c1 \in Nums /\ c2 \in Nums
        /\ w1 \in Weak(c1) /\ w2 \in Weak(c2)
Next == UNCHANGED <<op, c1, c2, w1, w2>>
Legit == Admits(w1, c1) /\ Admits(w2, c2)

\* second init: Equals over all same-type known values
InitEq == /\ op = "Equals"
          /\ c1 \in Known /\ c2 \in {x \in Known : x.ty = c1.ty}
          /\ w1 \in Weak(c1) /\ w2 \in Weak(c2)
ASSUME PrintT(<<"known", Cardinality(Known), "maxweak", Max({Cardinality(Weak(v)) : v \in Known})>>)
Emit == PrintT(ToJson([op |-> op, conc |-> <<c1, c2>>, weak |-> <<w1, w2>>]))
====
