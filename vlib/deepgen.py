"""deepgen: seeded random generator of abstract types / values / weakenings / mark placements that go
BEYOND the bounds TLC enumerates (depth <= 4, width <= 4, several weakened / marked positions, mixed nulls).

It only produces INPUT lines in the same abstract JSON vocabulary as the TLA+ generators (Universe.tla).
It never computes an expected result: every recorded execution is judged by the same TLA+ trace
specifications, which first re-decide the premises (e.g. Admits(weak, conc)) on what actually ran, so a
wrong guess of this generator can only make an event inconclusive, never a violation.
"""
import copy, json, random

TBOOL, TNUM, TSTR, TDYN = {"k": "bool"}, {"k": "number"}, {"k": "string"}, {"k": "dynamic"}
PRIMS = [TBOOL, TNUM, TSTR]
NAMES = ["a", "b", "c", "d"]
QS = [-8, -4, -2, -1, 0, 1, 2, 4, 6, 8, 12, 16, 20, 40]
MQS = [0, 4, 8, 12, -4, 2]
CHARS = ["a", "b", "c"]


def TList(e): return {"k": "list", "e": e}
def TSet(e): return {"k": "set", "e": e}
def TMap(e): return {"k": "map", "e": e}
def TTup(es): return {"k": "tuple", "es": list(es)}
def TObj(as_): return {"k": "object", "as": dict(as_), "opt": []}


def K(ty, v): return {"ty": ty, "st": "k", "v": v, "mk": []}
def Null(ty): return {"ty": ty, "st": "null", "mk": []}
def Unk(ty, rf): return {"ty": ty, "st": "unk", "rf": rf, "mk": []}
def NumV(q): return K(TNUM, {"q": q})
def StrV(s): return K(TSTR, {"s": list(s)})
def BoolV(b): return K(TBOOL, {"b": b})
DYNVAL = Unk(TDYN, {"null": "U"})


def key(x):
    return json.dumps(x, sort_keys=True)


class Gen:
    def __init__(self, seed, maxdepth=3, maxwidth=4):
        self.r = random.Random(seed)
        self.maxdepth, self.maxwidth = maxdepth, maxwidth

    # ------------------------------------------------------------------ types
    def rtype(self, depth=None, hashable=False):
        r = self.r
        depth = self.maxdepth if depth is None else depth
        if depth <= 0 or r.random() < 0.25:
            return r.choice(PRIMS)
        k = r.choice(["list", "set", "map", "tuple", "object"] if not hashable else ["list", "set", "map", "tuple", "object"])
        if k in ("list", "set", "map"):
            return {"k": k, "e": self.rtype(depth - 1)}
        if k == "tuple":
            return TTup([self.rtype(depth - 1) for _ in range(r.randint(0, 3))])
        names = r.sample(NAMES, r.randint(0, 3))
        return TObj({n: self.rtype(depth - 1) for n in names})

    # ------------------------------------------------------------------ known values
    def rprim(self, t, member=False):
        r = self.r
        if t["k"] == "bool":
            return BoolV(r.random() < 0.5)
        if t["k"] == "number":
            if not member and r.random() < 0.08:
                return K(TNUM, {"inf": r.choice([1, -1])})
            return NumV(r.choice(MQS if member else QS))
        n = r.choice([0, 1, 1, 2, 2, 3])
        return StrV([r.choice(CHARS) for _ in range(n)])

    def rval(self, t, nullp=0.12, member=False, top=True):
        """a known (or, for members, possibly null) value of type t; no unknowns, no marks"""
        r = self.r
        if not top and r.random() < nullp:
            return Null(t)
        k = t["k"]
        if k in ("bool", "number", "string"):
            return self.rprim(t, member)
        if k == "list":
            n = r.choice([0, 1, 2, 2, 3, self.maxwidth])
            return K(t, {"l": [self.rval(t["e"], nullp, True, False) for _ in range(n)]})
        if k == "set":
            n = r.choice([0, 1, 2, 3, self.maxwidth])
            seen, out = set(), []
            for _ in range(n):
                m = self.rval(t["e"], nullp, True, False)
                if key(m) not in seen:
                    seen.add(key(m))
                    out.append(m)
            return K(t, {"l": out})
        if k == "map":
            ks = r.sample(NAMES, r.randint(0, min(len(NAMES), self.maxwidth)))
            return K(t, {"m": {n: self.rval(t["e"], nullp, True, False) for n in ks}})
        if k == "tuple":
            return K(t, {"l": [self.rval(e, nullp, True, False) for e in t["es"]]})
        if k == "object":
            return K(t, {"m": {n: self.rval(e, nullp, True, False) for n, e in t["as"].items()}})
        raise ValueError(k)

    # ------------------------------------------------------------------ positions
    def positions(self, v, under_set=False, path=()):
        """[(path, under_set)] of every position of v (the top included)"""
        out = [(path, under_set)]
        if v["st"] != "k":
            return out
        k = v["ty"]["k"]
        if k in ("list", "set", "tuple"):
            for i, m in enumerate(v["v"]["l"]):
                out += self.positions(m, under_set or k == "set", path + (("l", i),))
        elif k in ("map", "object"):
            for n, m in v["v"]["m"].items():
                out += self.positions(m, under_set, path + (("m", n),))
        return out

    @staticmethod
    def at(v, path):
        for kind, i in path:
            v = v["v"][kind][i]
        return v

    @staticmethod
    def replace(v, path, w):
        v = copy.deepcopy(v)
        if not path:
            return copy.deepcopy(w)
        cur = v
        for kind, i in path[:-1]:
            cur = cur["v"][kind][i]
        kind, i = path[-1]
        cur["v"][kind][i] = copy.deepcopy(w)
        return v

    # ------------------------------------------------------------------ refinement menu (true of c)
    def wholly_known(self, v):
        if v["st"] == "unk":
            return False
        if v["st"] == "null":
            return True
        k = v["ty"]["k"]
        if k in ("list", "set", "tuple"):
            return all(self.wholly_known(m) for m in v["v"]["l"])
        if k in ("map", "object"):
            return all(self.wholly_known(m) for m in v["v"]["m"].values())
        return True

    def dyn_below(self, t):
        """t with one nested position replaced by the placeholder (never the top)"""
        r = self.r
        k = t["k"]
        if k in ("list", "set", "map"):
            if r.random() < 0.6 or t["e"]["k"] in ("bool", "number", "string"):
                return {"k": k, "e": TDYN}
            d = self.dyn_below(t["e"])
            return {"k": k, "e": d} if d else {"k": k, "e": TDYN}
        if k == "tuple" and t["es"]:
            i = r.randrange(len(t["es"]))
            es = list(t["es"])
            es[i] = TDYN
            return TTup(es)
        if k == "object" and t["as"]:
            n = r.choice(sorted(t["as"]))
            as_ = dict(t["as"])
            as_[n] = TDYN
            return {"k": "object", "as": as_, "opt": []}
        return None

    def menu(self, c):
        """unknown values that admit c (c known or null)"""
        r = self.r
        t = c["ty"]
        nfs = ["U", "F"] if c["st"] == "k" else ["U"]
        out = [Unk(t, {"null": nf}) for nf in nfs]
        g = self.dyn_below(t)
        if g:
            out.append(Unk(g, {"null": r.choice(nfs)}))
        if c["st"] != "k":
            return out
        nf = r.choice(nfs)
        if t["k"] == "number":
            n = c["v"]
            if "q" in n:
                q = n["q"]
                lo, hi = {"q": q - r.choice([1, 2, 4, 9])}, {"q": q + r.choice([1, 2, 4, 9])}
                out += [Unk(t, {"null": nf, "lo": {"q": q}, "loInc": True}),
                        Unk(t, {"null": nf, "hi": {"q": q}, "hiInc": True}),
                        Unk(t, {"null": nf, "lo": lo, "loInc": r.random() < 0.5}),
                        Unk(t, {"null": nf, "hi": hi, "hiInc": r.random() < 0.5}),
                        Unk(t, {"null": nf, "lo": lo, "loInc": False, "hi": hi, "hiInc": False}),
                        Unk(t, {"null": nf, "lo": {"q": q}, "loInc": True, "hi": hi, "hiInc": False}),
                        Unk(t, {"null": nf, "lo": lo, "loInc": False, "hi": {"q": q}, "hiInc": True})]
            elif n.get("inf") == 1:
                out += [Unk(t, {"null": nf, "lo": {"q": r.choice(QS)}, "loInc": r.random() < 0.5})]
            elif n.get("inf") == -1:
                out += [Unk(t, {"null": nf, "hi": {"q": r.choice(QS)}, "hiInc": r.random() < 0.5})]
        elif t["k"] == "string":
            s = c["v"]["s"]
            out += [Unk(t, {"null": nf, "prefix": s[:i]}) for i in range(1, len(s) + 1)]
        elif t["k"] in ("list", "map") or (t["k"] == "set" and self.wholly_known(c)):
            n = len(c["v"]["l"]) if t["k"] != "map" else len(c["v"]["m"])
            if n == 0:
                out.append(Unk(t, {"null": nf, "maxLen": 0}))
            else:
                out += [Unk(t, {"null": nf, "minLen": n, "maxLen": n}), Unk(t, {"null": nf, "minLen": n})]
                if n >= 2:
                    out.append(Unk(t, {"null": nf, "minLen": n - 1}))
            out += [Unk(t, {"null": nf, "maxLen": n + 1}), Unk(t, {"null": nf, "maxLen": n})]
        return out

    def weaken(self, v, n=1, allow_top=True):
        """v with up to n positions replaced by unknowns that admit the replaced part"""
        r = self.r
        for _ in range(n):
            ps = [p for p, _ in self.positions(v) if (allow_top or p) and self.at(v, p)["st"] != "unk"]
            if not ps:
                break
            # prefer nested positions: the top-level replacement is what the TLC families already do exhaustively
            nested = [p for p in ps if p]
            p = r.choice(nested) if nested and r.random() < 0.8 else r.choice(ps)
            w = r.choice(self.menu(self.at(v, p)))
            v = self.replace(v, p, w)
        return v

    def set_coalesce(self, v):
        """a known set gets one more member: an unknown that admits an existing member (the two may coalesce)"""
        r = self.r
        ps = [p for p, _ in self.positions(v) if self.at(v, p)["st"] == "k" and self.at(v, p)["ty"]["k"] == "set" and self.at(v, p)["v"]["l"]]
        if not ps:
            return None
        p = r.choice(ps)
        s = copy.deepcopy(self.at(v, p))
        m = r.choice(s["v"]["l"])
        s["v"]["l"].append(self.weaken(m, 1))
        return self.replace(v, p, s)

    # ------------------------------------------------------------------ marks
    def mark(self, v, n=1):
        r = self.r
        for _ in range(n):
            ps = [p for p, us in self.positions(v) if not us]
            p = r.choice(ps)
            m = copy.deepcopy(self.at(v, p))
            m["mk"] = sorted(set(m["mk"]) | set(r.choice([["m1"], ["m2"], ["m1", "m2"]])))
            v = self.replace(v, p, m)
        return v

    # ------------------------------------------------------------------ operation operand tuples
    def mutate(self, v):
        """a value of the same type differing from v somewhere (or equal to it)"""
        r = self.r
        if r.random() < 0.3:
            return copy.deepcopy(v)
        ps = [p for p, us in self.positions(v)]
        p = r.choice(ps)
        old = self.at(v, p)
        new = self.rval(old["ty"], top=(not p))
        w = self.replace(v, p, new)
        return self.canon_sets(w)

    def canon_sets(self, v):
        """remove duplicate members of sets (after a mutation)"""
        if v["st"] != "k":
            return v
        k = v["ty"]["k"]
        if k in ("list", "set", "tuple"):
            ms = [self.canon_sets(m) for m in v["v"]["l"]]
            if k == "set":
                seen, out = set(), []
                for m in ms:
                    if key(m) not in seen:
                        seen.add(key(m))
                        out.append(m)
                ms = out
            v = dict(v, v={"l": ms})
        elif k in ("map", "object"):
            v = dict(v, v={"m": {n: self.canon_sets(m) for n, m in v["v"]["m"].items()}})
        return v

    def op_tuple(self, api):
        """(operand tuple, xs) of wholly known operands, mostly well-typed, for an operation method"""
        r = self.r
        X = [{"none": True}]
        if api in ("Add", "Subtract", "Multiply", "Divide", "Modulo", "LessThan", "GreaterThan", "LessThanOrEqualTo", "GreaterThanOrEqualTo"):
            return [self.rprim(TNUM), self.rprim(TNUM)], X
        if api in ("Negate", "Absolute"):
            return [self.rprim(TNUM)], X
        if api in ("And", "Or"):
            return [self.rprim(TBOOL), self.rprim(TBOOL)], X
        if api == "Not":
            return [self.rprim(TBOOL)], X
        if api in ("Equals", "NotEqual"):
            t = self.rtype()
            v = self.rval(t, top=r.random() < 0.9)
            return [v, self.mutate(v)], X
        if api in ("Index", "HasIndex"):
            k = r.choice(["list", "tuple", "map"])
            if k == "list":
                t = TList(self.rtype(self.maxdepth - 1))
            elif k == "map":
                t = TMap(self.rtype(self.maxdepth - 1))
            else:
                t = TTup([self.rtype(self.maxdepth - 1) for _ in range(r.randint(1, 3))])
            c = self.rval(t)
            if k == "map":
                keyv = StrV([r.choice(NAMES)]) if r.random() < 0.9 else StrV(["a", "b"])
            else:
                n = len(c["v"]["l"])
                keyv = NumV(4 * r.randint(0, max(0, n - 1))) if (n and r.random() < 0.8) else NumV(r.choice([-4, 2, 4 * n, 4 * n + 4, 1]))
            return [c, keyv], X
        if api == "GetAttr":
            names = r.sample(NAMES, r.randint(1, 3))
            t = TObj({n: self.rtype(self.maxdepth - 1) for n in names})
            return [self.rval(t)], [{"name": n} for n in names]
        if api == "HasElement":
            t = TSet(self.rtype(self.maxdepth - 1))
            c = self.rval(t)
            ms = c["v"]["l"]
            e = copy.deepcopy(r.choice(ms)) if (ms and r.random() < 0.6) else self.rval(t["e"], top=r.random() < 0.8)
            if ms and r.random() < 0.3:
                e = self.mutate(e)
            return [c, e], X
        if api == "Length":
            k = r.choice(["list", "set", "map", "tuple"])
            t = {"k": k, "e": self.rtype(self.maxdepth - 1)} if k != "tuple" else TTup([self.rtype(self.maxdepth - 1) for _ in range(r.randint(0, 3))])
            return [self.rval(t)], X
        raise ValueError(api)

    def weak_variants(self, a, n, dyn_ok=True):
        """n weakened variants of the operand tuple a"""
        r = self.r
        out, seen = [], {key(a)}
        for _ in range(n * 3):
            if len(out) >= n:
                break
            b = [copy.deepcopy(x) for x in a]
            roll = r.random()
            i = r.randrange(len(a))
            if roll < 0.08 and dyn_ok:
                b[i] = copy.deepcopy(DYNVAL)
            elif roll < 0.2:
                c = self.set_coalesce(b[i])
                if c is None:
                    continue
                b[i] = c
            elif roll < 0.75:
                b[i] = self.weaken(b[i], r.choice([1, 1, 2, 3]))
            else:
                b = [self.weaken(x, r.choice([1, 2])) for x in b]
            if key(b) not in seen:
                seen.add(key(b))
                out.append(b)
        return out

    def mark_variants(self, a, n):
        r = self.r
        out, seen = [], set()
        for _ in range(n * 3):
            if len(out) >= n:
                break
            b = [copy.deepcopy(x) for x in a]
            if r.random() < 0.35:
                j = r.randrange(len(b))
                b[j] = self.weaken(b[j], 1)
            i = r.randrange(len(b))
            b[i] = self.mark(b[i], r.choice([1, 1, 2, 3]))
            if len(b) > 1 and r.random() < 0.3:
                j = r.randrange(len(b))
                b[j] = self.mark(b[j], 1)
            if key(b) not in seen:
                seen.add(key(b))
                out.append(b)
        return out

    # ------------------------------------------------------------------ line families
    def ops_lines(self, mode, apis, per_api, variants):
        for api in apis:
            for _ in range(per_api):
                a, xs = self.op_tuple(api)
                if mode == "weak":
                    vs = self.weak_variants(a, variants)
                elif mode == "mark":
                    vs = self.mark_variants(a, variants)
                else:
                    vs = []
                if mode != "call" and not vs:
                    continue
                yield {"k": mode, "api": api, "xs": xs, "a": a, "vs": vs}

    # standard-library functions: arguments chosen by the declared parameter constraints
    def arg_for(self, pty, fname, i):
        r = self.r
        k = pty["k"]
        if k == "dynamic":
            return self.rval(self.rtype(self.maxdepth), top=True)
        if k in ("bool", "number", "string"):
            if k == "number" and r.random() < 0.5:
                return NumV(4 * r.randint(-3, 6))       # whole numbers: indices, sizes, steps
            return self.rprim(pty)
        if k in ("list", "set", "map"):
            e = pty["e"]
            et = self.rtype(self.maxdepth - 1) if e["k"] == "dynamic" else e
            return self.rval({"k": k, "e": et})
        return self.rval(pty)

    def fn_lines(self, sigs, mode, per_fn, variants, only=None, skip=()):
        r = self.r
        for f in sigs:
            name = f["name"]
            if name in skip or (only and name not in only):
                continue
            ps = f["ps"]
            var = None if "none" in f["var"] else f["var"]
            for _ in range(per_fn):
                n = len(ps) + (r.choice([0, 1, 2, 3]) if var else 0)
                a = [self.arg_for(ps[i]["ty"] if i < len(ps) else var["ty"], name, i) for i in range(n)]
                if var and var["ty"]["k"] == "dynamic" and n > len(ps) + 1 and r.random() < 0.6:
                    # variadic arguments of one shared type (merge, concat, coalesce, set operations ...)
                    t0 = a[len(ps)]["ty"]
                    for j in range(len(ps) + 1, n):
                        a[j] = self.rval(t0)
                if mode == "weak":
                    vs = self.weak_variants(a, variants, dyn_ok=False) if a else []
                elif mode == "mark":
                    vs = self.mark_variants(a, variants) if a else []
                else:
                    vs = []
                if mode in ("weak", "mark") and not vs:
                    continue
                yield {"k": "call" if mode in ("call", "ref") else mode, "api": "fn:" + name, "xs": [{"none": True}], "a": a, "vs": vs}

    # conversion: values x targets derived from the value's own type
    def derive_target(self, t, depth=0):
        """a type related to t: a placeholder somewhere, a kind change, an element conversion, optional attributes"""
        r = self.r
        roll = r.random()
        k = t["k"]
        if roll < 0.12:
            return TDYN
        if k in ("bool", "number", "string"):
            return r.choice(PRIMS) if roll < 0.5 else t
        if k in ("list", "set", "map"):
            nk = k
            if roll < 0.45 and k != "map":
                nk = r.choice(["list", "set"])
            return {"k": nk, "e": self.derive_target(t["e"], depth + 1)}
        if k == "tuple":
            if roll < 0.4 and t["es"]:
                return {"k": r.choice(["list", "set"]), "e": self.derive_target(r.choice(t["es"]), depth + 1)}
            return TTup([self.derive_target(e, depth + 1) for e in t["es"]])
        if k == "object":
            if roll < 0.3 and t["as"]:
                return TMap(self.derive_target(t["as"][r.choice(sorted(t["as"]))], depth + 1))
            as_ = {n: self.derive_target(e, depth + 1) for n, e in t["as"].items()}
            opt = []
            if r.random() < 0.5:
                extra = [n for n in NAMES if n not in as_]
                for n in extra[:r.randint(0, 2)]:
                    as_[n] = self.rtype(1)
                    opt.append(n)
            if as_ and r.random() < 0.3:
                n = r.choice(sorted(as_))
                if n not in opt:
                    opt.append(n)
            if as_ and r.random() < 0.15:
                del as_[r.choice(sorted(set(as_) - set(opt)) or sorted(as_))]
                opt = [o for o in opt if o in as_]
            return {"k": "object", "as": as_, "opt": sorted(opt)}
        return t

    def conv_lines(self, nlines, nvals, ntargets):
        r = self.r
        for _ in range(nlines):
            t = self.rtype()
            vals = []
            for _ in range(nvals):
                v = self.rval(t, top=r.random() < 0.85)
                roll = r.random()
                if roll < 0.35:
                    v = self.weaken(v, r.choice([1, 2]))
                elif roll < 0.5:
                    v = self.mark(v, r.choice([1, 2]))
                elif roll < 0.6:
                    v = self.mark(self.weaken(v, 1), 1)
                vals.append({"v": v, "cands": []})
            targets = [t] + [self.derive_target(t) for _ in range(ntargets)]
            seen, ts = set(), []
            for x in targets:
                if key(x) not in seen:
                    seen.add(key(x))
                    ts.append(x)
            yield {"vals": vals, "targets": ts}

    # codecs: values x constraints obtained by replacing sub-types by the placeholder
    def dyn_at(self, t):
        r = self.r
        if r.random() < 0.3:
            return TDYN
        k = t["k"]
        if k in ("list", "set", "map"):
            return {"k": k, "e": self.dyn_at(t["e"])}
        if k == "tuple" and t["es"]:
            es = list(t["es"])
            i = r.randrange(len(es))
            es[i] = self.dyn_at(es[i])
            return TTup(es)
        if k == "object" and t["as"]:
            as_ = dict(t["as"])
            n = r.choice(sorted(as_))
            as_[n] = self.dyn_at(as_[n])
            return {"k": "object", "as": as_, "opt": []}
        return TDYN

    def finite(self, v):
        """no infinities (JSON cannot represent them)"""
        s = key(v)
        return '"inf"' not in s

    def json_lines(self, nlines, nvals, ntys):
        for _ in range(nlines):
            t = self.rtype()
            vals = []
            for _ in range(nvals * 3):
                v = self.rval(t, top=self.r.random() < 0.9)
                if self.finite(v):
                    vals.append(v)
                if len(vals) >= nvals:
                    break
            tys = [t] + [self.dyn_at(t) for _ in range(ntys)]
            yield {"k": "jm", "vals": vals, "tys": self.uniq(tys)}
            bad = []
            for v in vals[:3]:
                if v["st"] == "k":
                    bad.append(self.weaken(v, 1))
                    bad.append(self.mark(v, 1))
            if bad:
                yield {"k": "jx", "vals": bad, "tys": [t, TDYN]}

    def uniq(self, xs):
        seen, out = set(), []
        for x in xs:
            if key(x) not in seen:
                seen.add(key(x))
                out.append(x)
        return out

    def mpack_lines(self, nlines, nvals, ntys):
        r = self.r
        for _ in range(nlines):
            t = self.rtype()
            vals = []
            for _ in range(nvals):
                v = self.rval(t, top=r.random() < 0.9)
                roll = r.random()
                if roll < 0.6:
                    v = self.weaken(v, r.choice([1, 1, 2, 3]))
                elif roll < 0.68:
                    v = self.mark(v, 1)
                vals.append(v)
            tys = [t] + [self.dyn_at(t) for _ in range(ntys)]
            yield {"vals": vals, "tys": self.uniq(tys)}

    # walk / transform / paths
    def walk_lines(self, nlines, nvariants):
        r = self.r
        steps = [{"a": n} for n in NAMES] + [{"i": NumV(4 * i)} for i in range(0, 5)] + [{"i": NumV(-4)}, {"i": NumV(2)}] + [{"i": StrV([n])} for n in NAMES]
        for _ in range(nlines):
            t = self.rtype()
            while t["k"] in ("bool", "number", "string"):
                t = self.rtype()
            base = self.rval(t)
            vs = [base]
            for _ in range(nvariants):
                roll = r.random()
                if roll < 0.3:
                    vs.append(self.weaken(base, r.choice([1, 2]), allow_top=False))
                elif roll < 0.7:
                    vs.append(self.mark(base, r.choice([1, 2, 3])))
                else:
                    vs.append(self.mark(self.weaken(base, 1, allow_top=False), r.choice([1, 2])))
            # paths: real member paths (valid), their corruptions and random step sequences
            paths = []
            for p, us in self.positions(base):
                if us or not p or len(p) > 3:
                    continue
                pp = []
                cur = base
                for kind, i in p:
                    k = cur["ty"]["k"]
                    if k == "object":
                        pp.append({"a": i})
                    elif k == "map":
                        pp.append({"i": StrV([i])})
                    else:
                        pp.append({"i": NumV(4 * i)})
                    cur = cur["v"][kind][i]
                paths.append(pp)
                if r.random() < 0.4:
                    q = copy.deepcopy(pp)
                    q[r.randrange(len(q))] = r.choice(steps)
                    paths.append(q)
            for _ in range(4):
                paths.append([r.choice(steps) for _ in range(r.randint(1, 3))])
            repls = []
            for p, us in self.positions(base):
                if us or not p or r.random() < 0.5:
                    continue
                m = self.at(base, p)
                new = self.rval(m["ty"], top=r.random() < 0.8)
                if r.random() < 0.2:
                    new = Unk(m["ty"], {"null": "U"})
                pp, cur = [], base
                for kind, i in p:
                    k = cur["ty"]["k"]
                    pp.append({"a": i} if k == "object" else {"i": StrV([i])} if k == "map" else {"i": NumV(4 * i)})
                    cur = cur["v"][kind][i]
                repls.append({"p": pp, "r": new})
            yield {"vs": self.uniq(vs), "paths": self.uniq(paths)[:40], "repls": repls[:12], "base": base}


def write_lines(path, lines):
    n = 0
    with open(path, "w") as f:
        for ln in lines:
            f.write(json.dumps(ln) + "\n")
            n += 1
    return n
