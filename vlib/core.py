"""vcheck core: pipeline pieces shared by all property checks.

  D  design-level TLC model checking of spec modules      (tlc_mc)
  G  TLC generators -> ndjson vectors                      (tlc_gen)
     real code executed by the Go harness -> ndjson events (harness)
  T  TLC trace validation of recorded events               (trace)

Verdict discipline: a VIOLATION is reported only when an event recorded from
the real code is rejected by a contract rule evaluated by TLC.  Tool failures,
timeouts, model-level errors and failed premises are exit 2 (inconclusive).
"""
import hashlib, json, os, re, shutil, subprocess, sys, tempfile, time
from concurrent.futures import ThreadPoolExecutor

VERIF = os.path.dirname(os.path.dirname(os.path.abspath(__file__)))
REPO = os.environ.get("VERIF_REPO", "/repo")
JAR = "/opt/veriftools/tla/tla2tools.jar:/opt/veriftools/tla/CommunityModules-deps.jar"
GOENV = dict(GOFLAGS="-mod=mod", GOPROXY="off", GOSUMDB="off", GOTOOLCHAIN="local")
NCPU = os.cpu_count() or 4


class Inconclusive(Exception):
    pass


class Check:
    def __init__(self, pid, tier, seed, level="model_checking"):
        self.pid, self.tier, self.seed, self.level = pid, tier, seed, level
        self.t0 = time.time()
        self.work = tempfile.mkdtemp(prefix="vcheck-%s-" % pid)
        self.specdir = os.path.join(self.work, "spec")
        shutil.copytree(os.path.join(VERIF, "spec"), self.specdir)
        self.states = 0
        self.transitions = 0
        self.traces = 0
        self.events = 0
        self.nontrivial = 0
        self.counts = {}
        self.viol = []        # {rule, event, ctx}
        self.incon = []       # strings
        self.samples = []
        self.assumptions = []
        self.rule_text = ""
        self.extra = {}
        self.mc_runs = []
        self.hbin = None
        self.log = open(os.path.join(self.work, "log.txt"), "w")

    # ------------------------------------------------------------ utilities
    def note(self, *a):
        print("[%s %6.1fs]" % (self.pid, time.time() - self.t0), *a, file=sys.stderr, flush=True)

    def path(self, *p):
        return os.path.join(self.work, *p)

    def cleanup(self):
        self.log.close()
        if os.environ.get("VERIF_KEEP"):
            self.note("kept", self.work)
        else:
            shutil.rmtree(self.work, ignore_errors=True)

    # ------------------------------------------------------------ harness
    def build_harness(self, race=False):
        out = self.path("harness-race" if race else "harness")
        cmd = ["go", "build", "-tags", "verif", "-o", out]
        if race:
            cmd.insert(2, "-race")
        env = dict(os.environ, **GOENV)
        hdir = os.path.join(VERIF, "harness")
        if REPO != "/repo":
            # mutant self-test: build the harness against a scratch copy of the library
            hdir = self.path("harness-src")
            if not os.path.exists(hdir):
                shutil.copytree(os.path.join(VERIF, "harness"), hdir)
                gm = open(os.path.join(hdir, "go.mod")).read().replace("=> /repo", "=> " + REPO)
                open(os.path.join(hdir, "go.mod"), "w").write(gm)
        r = subprocess.run(cmd + ["."], cwd=hdir, env=env,
                           stdout=subprocess.PIPE, stderr=subprocess.STDOUT, text=True)
        if r.returncode != 0:
            raise Inconclusive("harness build failed:\n" + r.stdout[-3000:])
        if not race:
            self.hbin = out
        return out

    def harness(self, driver, out, inp=None, args=(), timeout=1800, binpath=None, env=None, ok_codes=(0,)):
        cmd = [binpath or self.hbin, driver, "-out", out, "-seed", str(self.seed), "-tier", self.tier]
        if inp:
            cmd += ["-in", inp]
        cmd += list(args)
        if getattr(self, "inspect", False):
            cmd.append("inspect=1")
        e = dict(os.environ)
        if env:
            e.update(env)
        try:
            r = subprocess.run(cmd, stdout=subprocess.PIPE, stderr=subprocess.PIPE, text=True, timeout=timeout, env=e)
        except subprocess.TimeoutExpired:
            raise Inconclusive("harness %s timed out" % driver)
        self.log.write("== harness %s\n%s\n%s\n" % (" ".join(cmd), r.stdout[-2000:], r.stderr[-4000:]))
        if r.returncode not in ok_codes:
            raise Inconclusive("harness %s exit %d: %s" % (driver, r.returncode, r.stderr[-2000:]))
        try:
            return json.loads(r.stdout.strip().splitlines()[-1])
        except Exception:
            return {"rc": r.returncode, "stderr": r.stderr}

    # ------------------------------------------------------------ TLC
    def _tlc(self, module, cfg, env, workers, timeout, heap, tag, extra=()):
        md = tempfile.mkdtemp(prefix="md-%s-" % tag, dir=self.work)
        cmd = ["timeout", str(timeout), "java", "-Djava.io.tmpdir=" + self.work, "-XX:+UseParallelGC", "-Xmx" + heap, "-Xss256m",
               "-cp", JAR, "tlc2.TLC", "-workers", str(workers), "-metadir", md,
               "-config", cfg, "-lncheck", "final"] + list(extra) + [module]
        e = dict(os.environ)
        e.update({k: str(v) for k, v in (env or {}).items()})
        r = subprocess.run(cmd, cwd=self.specdir, env=e, stdout=subprocess.PIPE, stderr=subprocess.STDOUT, text=True)
        shutil.rmtree(md, ignore_errors=True)
        self.log.write("== tlc %s %s rc=%d\n%s\n" % (module, env, r.returncode, r.stdout[-6000:]))
        return r.returncode, r.stdout

    @staticmethod
    def _counts(out):
        m = re.search(r"(\d+) states generated, (\d+) distinct states found", out)
        return (int(m.group(1)), int(m.group(2))) if m else (0, 0)

    def tlc_mc(self, module, cfg=None, env=None, workers=NCPU, timeout=1500, heap="24g", extra=()):
        """Design-level model check.  A failure here is a property of the model, not of
        the code: it is reported as inconclusive (model error), never as a violation."""
        cfg = cfg or module + ".cfg"
        rc, out = self._tlc(module + ".tla", cfg, env, workers, timeout, heap, "mc", extra)
        gen, dist = self._counts(out)
        ok = "Model checking completed. No error has been found." in out
        self.mc_runs.append({"module": module, "cfg": cfg, "states_generated": gen, "distinct_states": dist, "ok": ok})
        self.states += dist
        self.transitions += gen
        if not ok:
            raise Inconclusive("design-level model check %s/%s failed (rc=%d):\n%s" % (module, cfg, rc, out[-3000:]))
        return out

    def tlc_gen(self, module, env, cfg=None, timeout=1500, heap="16g"):
        cfg = cfg or module + ".cfg"
        rc, out = self._tlc(module + ".tla", cfg, env, 1, timeout, heap, "gen")
        if "No error has been found" not in out:
            raise Inconclusive("generator %s failed (rc=%d):\n%s" % (module, rc, out[-3000:]))
        m = re.search(r'<<\s*"GEN",\s*(\d+)', out)
        n = int(m.group(1)) if m else 0
        self.mc_runs.append({"module": module, "generated": n, "env": {k: str(v) for k, v in env.items() if k != "VOUT"}})
        return n

    def tlc_sim(self, module, cfg, out, num, depth, env=None, nproc=8, timeout=900):
        """Behaviours from TLC simulation runs: the spec prints one JSON line per behaviour
        (PrintT(ToJson(..)) from an invariant); nproc JVMs with different seeds."""
        def one(i):
            e = dict(env or {})
            rc, o = self._tlc(module + ".tla", cfg, e, 1, timeout, "2g", "sim",
                              extra=("-simulate", "num=%d" % (num // nproc + 1), "-depth", str(depth), "-seed", str(self.seed * 1000 + i)))
            lines = []
            for ln in o.splitlines():
                if ln.startswith('"{'):
                    try:
                        lines.append(json.loads(ln))
                    except Exception:
                        pass
            if not lines:
                raise Inconclusive("simulation of %s produced no behaviours:\n%s" % (module, o[-2000:]))
            return lines
        with ThreadPoolExecutor(max_workers=NCPU) as ex:
            res = list(ex.map(one, range(nproc)))
        n = 0
        seen = set()
        with open(out, "w") as f:
            for lines in res:
                for ln in lines:
                    if ln in seen:
                        continue
                    seen.add(ln)
                    f.write(ln + "\n")
                    n += 1
        self.mc_runs.append({"module": module, "mode": "simulate", "behaviours": n, "depth": depth})
        return n

    def tlc_emit(self, module, cfg, env=None, workers=8, timeout=900, heap="8g", limit=None):
        """Run a design-level exploration whose invariant PRINTS predicted histories
        (PrintT(ToJson(..))); returns the distinct JSON strings.  Predictions are inputs
        for replay on the real code, never verdicts."""
        rc, o = self._tlc(module + ".tla", cfg, env, workers, timeout, heap, "emit")
        gen, dist = self._counts(o)
        self.states += dist
        self.transitions += gen
        self.mc_runs.append({"module": module, "cfg": cfg, "states_generated": gen, "distinct_states": dist, "mode": "predict"})
        out, seen = [], set()
        for ln in o.splitlines():
            if ln.startswith('"{'):
                try:
                    x = json.loads(ln)
                except Exception:
                    continue
                if x not in seen:
                    seen.add(x)
                    out.append(x)
                    if limit and len(out) >= limit:
                        break
        return out

    def gen_parallel(self, jobs, timeout=1500, heap="4g", seeds=None):
        """jobs: list of (module, env) with env["VOUT"] set.  Runs the TLC generators
        concurrently (one JVM each).  Returns total GEN count."""
        idx = {id(j): i for i, j in enumerate(jobs)}
        def one(job):
            module, env = job
            extra = ("-seed", str(seeds[idx[id(job)]])) if seeds else ()
            rc, out = self._tlc(module + ".tla", module + ".cfg", env, 1, timeout, heap, "gen", extra)
            if "No error has been found" not in out:
                raise Inconclusive("generator %s %s failed (rc=%d):\n%s" % (module, {k: v for k, v in env.items() if k != "VOUT"}, rc, out[-2500:]))
            m = re.search(r'<<\s*"GEN",\s*(\d+)', out)
            return int(m.group(1)) if m else 0
        with ThreadPoolExecutor(max_workers=NCPU) as ex:
            ns = list(ex.map(one, jobs))
        self.mc_runs.append({"generators": len(jobs), "module": jobs[0][0] if jobs else "", "lines": sum(ns)})
        return sum(ns)

    def harness_parallel(self, driver, pairs, args=(), timeout=1800):
        """pairs: list of (inp, out). Runs the harness on each input concurrently."""
        def one(pr):
            return self.harness(driver, pr[1], inp=pr[0], args=args, timeout=timeout)
        with ThreadPoolExecutor(max_workers=NCPU) as ex:
            return list(ex.map(one, pairs))

    @staticmethod
    def concat(paths, out):
        with open(out, "w") as o:
            for p in paths:
                if os.path.exists(p):
                    with open(p) as f:
                        shutil.copyfileobj(f, o)
        return out

    # ------------------------------------------------------------ trace validation
    def shard(self, events, nshards, header=None, boundary=None, dedupe=True):
        """Split an events file into shard files.  header(ev_dict_or_line) -> True for lines
        replicated at the start of every shard; boundary(line) -> True where a shard may start."""
        hdr, body, seen = [], [], set()
        with open(events) as f:
            for line in f:
                if not line.strip():
                    continue
                if header and header(line):
                    hdr.append(line)
                    continue
                if dedupe and boundary is None:
                    h = hashlib.blake2b(line.encode(), digest_size=12).digest()
                    if h in seen:
                        continue
                    seen.add(h)
                body.append(line)
        if not body:
            raise Inconclusive("no events recorded in %s" % events)
        nshards = max(1, min(nshards, len(body) // 200 + 1))
        per = (len(body) + nshards - 1) // nshards
        shards, i = [], 0
        while i < len(body):
            j = min(len(body), i + per)
            if boundary:
                while j < len(body) and not boundary(body[j]):
                    j += 1
            fd, p = tempfile.mkstemp(prefix="shard-%d-" % len(shards), suffix=".ndjson", dir=self.work)
            os.close(fd)
            with open(p, "w") as f:
                f.writelines(hdr)
                f.writelines(body[i:j])
            shards.append((p, len(hdr) + (j - i)))
            i = j
        return shards

    def trace(self, module, events, nshards=NCPU, env=None, header=None, boundary=None, cfg=None,
              timeout=1500, heap="3g", dedupe=True, ctx_for=None):
        """Validate recorded events with a TLA+ trace spec.  Prints of the form
        <<"VIOL", l, rule>> name rejected events; <<"INCON", l, why>> failed premises;
        <<"DONE", l, counts>> must report the whole shard consumed."""
        cfg = cfg or module + ".cfg"
        shards = self.shard(events, nshards, header, boundary, dedupe)

        def one(sh):
            p, n = sh
            e = dict(env or {})
            e["VTRACE"] = p
            rc, out = self._tlc(module + ".tla", cfg, e, 1, timeout, heap, "tr")
            return p, n, rc, out

        with ThreadPoolExecutor(max_workers=NCPU) as ex:
            results = list(ex.map(one, shards))
        for p, n, rc, out in results:
            gen, dist = self._counts(out)
            self.states += dist
            self.transitions += gen
            flat = out
            done = re.search(r'<<\s*"DONE",\s*(\d+),\s*(.*?)>>', flat, re.S)
            if not done or int(done.group(1)) != n or "No error has been found" not in out:
                raise Inconclusive("trace spec %s did not consume shard %s (%d lines) rc=%d:\n%s"
                                   % (module, p, n, rc, out[-3000:]))
            for k, v in re.findall(r"(\w+)\s*\|->\s*(\d+)", done.group(2)):
                self.counts[k] = self.counts.get(k, 0) + int(v)
            lines = None
            for m in re.finditer(r'<<\s*"(VIOL|INCON)",\s*(\d+),\s*"([^"]+)"\s*>>', flat):
                if lines is None:
                    lines = open(p).read().splitlines()
                l = int(m.group(2))
                ev = json.loads(lines[l - 1])
                rec = {"rule": m.group(3), "event": ev, "module": module}
                if ctx_for:
                    rec["ctx"] = ctx_for(lines, l)
                if m.group(1) == "VIOL":
                    self.viol.append(rec)
                else:
                    self.incon.append(rec)
            self.traces += 1
            self.events += n
        self.nontrivial = self.counts.get("nontrivial", 0)
        return results

    def load_replay(self, path):
        rec = json.load(open(path))
        if rec.get("property") != self.pid:
            raise Inconclusive("replay file is for property %s" % rec.get("property"))
        return rec

    def sample_events(self, events, k=3, pred=None):
        out = []
        with open(events) as f:
            for i, line in enumerate(f):
                if pred and not pred(line):
                    continue
                out.append(json.loads(line))
                if len(out) >= k:
                    break
        self.samples += out

    # ------------------------------------------------------------ verdict
    def known_findings(self):
        kf = []
        p = os.path.join(VERIF, "KNOWN_FINDINGS.txt")
        if os.path.exists(p):
            for line in open(p):
                line = line.strip()
                if line.startswith("finding:"):
                    kf.append(json.loads(line[len("finding:"):]))
        return [k for k in kf if k.get("property") == self.pid]

    @staticmethod
    def _get(ev, dotted):
        cur = ev
        for part in dotted.split("."):
            if isinstance(cur, list):
                try:
                    cur = cur[int(part)]
                except Exception:
                    return None
            elif isinstance(cur, dict):
                cur = cur.get(part)
            else:
                return None
        return cur

    def matches(self, k, rec):
        if k.get("rule") and k["rule"] != rec["rule"]:
            return False
        for path, want in (k.get("match") or {}).items():
            got = self._get(rec["event"], path)
            if isinstance(want, dict) and "re" in want:
                if got is None or not re.search(want["re"], json.dumps(got, sort_keys=True) if not isinstance(got, str) else got):
                    return False
            elif got != want:
                return False
        return True

    def finish(self):
        kf = self.known_findings()
        OUT = os.environ.get("VERIF_OUT")
        outdir = os.path.join(OUT or os.path.join(VERIF, "out"), self.pid)
        os.makedirs(outdir, exist_ok=True)
        for f in os.listdir(outdir):
            if f.startswith("viol-") or f == "all-violations.ndjson":
                os.remove(os.path.join(outdir, f))
        new, known_hits = [], {}
        foreign = {}
        mine = []
        for rec in self.viol:
            pref = rec["rule"].split(".")[0]
            if re.match(r"^C\d\d$", pref) and pref != self.pid:
                foreign[rec["rule"]] = foreign.get(rec["rule"], 0) + 1
            else:
                mine.append(rec)
        self.extra["rules_of_other_properties_rejecting_events"] = foreign
        for rec in mine:
            hit = next((k for k in kf if self.matches(k, rec)), None)
            if hit:
                known_hits.setdefault(hit["what"], 0)
                known_hits[hit["what"]] += 1
            else:
                new.append(rec)
        for what, n in known_hits.items():
            print("KNOWN-FINDING: property=%s %s (%d events)" % (self.pid, what, n))
        seen_rules = {}
        for i, rec in enumerate(new):
            seen_rules.setdefault(rec["rule"], 0)
            seen_rules[rec["rule"]] += 1
            if seen_rules[rec["rule"]] > 5:
                continue
            p = os.path.join(outdir, "viol-%s-%d.json" % (rec["rule"], seen_rules[rec["rule"]]))
            with open(p, "w") as f:
                json.dump({"property": self.pid, "rule": rec["rule"], "event": rec["event"],
                           "ctx": rec.get("ctx"), "seed": self.seed, "tier": self.tier}, f, indent=1)
            print("VIOLATION property=%s replay=%s rule=%s" % (self.pid, p, rec["rule"]))
        if new:
            print("violations by rule:", seen_rules)
            with open(os.path.join(outdir, "all-violations.ndjson"), "w") as f:
                for rec in new[:20000]:
                    f.write(json.dumps({"rule": rec["rule"], "event": rec["event"]}) + "\n")
        if self.incon:
            with open(os.path.join(outdir, "inconclusive.ndjson"), "w") as f:
                for rec in self.incon[:2000]:
                    f.write(json.dumps({"rule": rec["rule"], "event": rec["event"]}) + "\n")
        wall = time.time() - self.t0
        cov = {
            "states": self.states, "transitions": self.transitions,
            "traces_validated_against_impl": self.traces,
            "evaluations": self.events, "distinct_nontrivial": self.nontrivial,
            "rule": self.rule_text, "samples": self.samples[:6] or [{"note": "no sample"}],
            "event_counts": self.counts, "tlc_runs": self.mc_runs,
            "known_finding_events": known_hits, "inconclusive_events": len(self.incon),
        }
        cov.update(self.extra)
        ev = {"property_id": self.pid, "tier": self.tier, "seed": self.seed, "level": self.level,
              "coverage": cov, "assumptions": self.assumptions, "wall_s": round(wall, 1),
              "violations": len(new)}
        evdir = os.path.join(OUT, "evidence") if OUT else os.path.join(VERIF, "evidence")
        os.makedirs(evdir, exist_ok=True)
        with open(os.path.join(evdir, self.pid + ".json"), "w") as f:
            json.dump(ev, f, indent=1)
        self.note("events=%d traces=%d states=%d nontrivial=%d viol=%d known=%d incon=%d wall=%.0fs" % (
            self.events, self.traces, self.states, self.nontrivial, len(new), sum(known_hits.values()), len(self.incon), wall))
        if new:
            return 1
        if self.incon and len(self.incon) > max(10, self.events // 20):
            print("INCONCLUSIVE property=%s: %d events with failed premises, e.g. %s" % (
                self.pid, len(self.incon), json.dumps(self.incon[0])[:600]))
            return 2
        return 0


LEVELS = {"C17": "exploration"}

def run_check(pid, fn, argv):
    import argparse
    ap = argparse.ArgumentParser()
    ap.add_argument("--tier", default=os.environ.get("VERIF_TIER", "quick"))
    ap.add_argument("--seed", type=int, default=int(os.environ.get("VERIF_SEED", "1")))
    ap.add_argument("--replay")
    a = ap.parse_args(argv)
    c = Check(pid, a.tier, a.seed, level=LEVELS.get(pid, "model_checking"))
    rc = 2
    try:
        fn(c, a)
        rc = c.finish()
    except Inconclusive as e:
        print("INCONCLUSIVE property=%s: %s" % (pid, e))
        rc = 2
    finally:
        c.cleanup()
    return rc
