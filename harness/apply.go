package main

// Dispatcher: executes one named API call of the real library on concretized
// arguments.  No expected results are computed here.

import (
	"fmt"
	"sort"
	"strings"


	"github.com/zclconf/go-cty/cty"
	"github.com/zclconf/go-cty/cty/convert"
	"github.com/zclconf/go-cty/cty/function"
	"github.com/zclconf/go-cty/cty/function/stdlib"
)

var stdlibFuncs = map[string]function.Function{
	"not": stdlib.NotFunc, "and": stdlib.AndFunc, "or": stdlib.OrFunc,
	"byteslen": stdlib.BytesLenFunc, "bytesslice": stdlib.BytesSliceFunc,
	"hasindex": stdlib.HasIndexFunc, "index": stdlib.IndexFunc, "length": stdlib.LengthFunc,
	"element": stdlib.ElementFunc, "coalescelist": stdlib.CoalesceListFunc, "compact": stdlib.CompactFunc,
	"contains": stdlib.ContainsFunc, "distinct": stdlib.DistinctFunc, "chunklist": stdlib.ChunklistFunc,
	"flatten": stdlib.FlattenFunc, "keys": stdlib.KeysFunc, "lookup": stdlib.LookupFunc, "merge": stdlib.MergeFunc,
	"reverselist": stdlib.ReverseListFunc, "setproduct": stdlib.SetProductFunc, "slice": stdlib.SliceFunc,
	"values": stdlib.ValuesFunc, "zipmap": stdlib.ZipmapFunc, "assertnotnull": stdlib.AssertNotNullFunc,
	"csvdecode": stdlib.CSVDecodeFunc, "formatdate": stdlib.FormatDateFunc, "timeadd": stdlib.TimeAddFunc,
	"format": stdlib.FormatFunc, "formatlist": stdlib.FormatListFunc, "equal": stdlib.EqualFunc,
	"notequal": stdlib.NotEqualFunc, "coalesce": stdlib.CoalesceFunc, "jsonencode": stdlib.JSONEncodeFunc,
	"jsondecode": stdlib.JSONDecodeFunc, "abs": stdlib.AbsoluteFunc, "add": stdlib.AddFunc,
	"subtract": stdlib.SubtractFunc, "multiply": stdlib.MultiplyFunc, "divide": stdlib.DivideFunc,
	"modulo": stdlib.ModuloFunc, "greaterthan": stdlib.GreaterThanFunc,
	"greaterthanorequalto": stdlib.GreaterThanOrEqualToFunc, "lessthan": stdlib.LessThanFunc,
	"lessthanorequalto": stdlib.LessThanOrEqualToFunc, "negate": stdlib.NegateFunc, "min": stdlib.MinFunc,
	"max": stdlib.MaxFunc, "int": stdlib.IntFunc, "ceil": stdlib.CeilFunc, "floor": stdlib.FloorFunc,
	"log": stdlib.LogFunc, "pow": stdlib.PowFunc, "signum": stdlib.SignumFunc, "parseint": stdlib.ParseIntFunc,
	"regex": stdlib.RegexFunc, "regexall": stdlib.RegexAllFunc, "concat": stdlib.ConcatFunc,
	"range": stdlib.RangeFunc, "sethaselement": stdlib.SetHasElementFunc, "setunion": stdlib.SetUnionFunc,
	"setintersection": stdlib.SetIntersectionFunc, "setsubtract": stdlib.SetSubtractFunc,
	"setsymmetricdifference": stdlib.SetSymmetricDifferenceFunc, "upper": stdlib.UpperFunc,
	"lower": stdlib.LowerFunc, "reverse": stdlib.ReverseFunc, "strlen": stdlib.StrlenFunc,
	"substr": stdlib.SubstrFunc, "join": stdlib.JoinFunc, "sort": stdlib.SortFunc, "split": stdlib.SplitFunc,
	"chomp": stdlib.ChompFunc, "indent": stdlib.IndentFunc, "title": stdlib.TitleFunc,
	"trimspace": stdlib.TrimSpaceFunc, "trim": stdlib.TrimFunc, "trimprefix": stdlib.TrimPrefixFunc,
	"trimsuffix": stdlib.TrimSuffixFunc, "replace": stdlib.ReplaceFunc, "regexreplace": stdlib.RegexReplaceFunc,
}

func stdlibNames() []string {
	ns := make([]string, 0, len(stdlibFuncs))
	for n := range stdlibFuncs {
		ns = append(ns, n)
	}
	sort.Strings(ns)
	return ns
}

func lookupFunc(name string, x J) (function.Function, bool) {
	if name == "to" {
		return stdlib.MakeToFunc(ConcretizeType(asJ(x["ty"]))), true
	}
	f, ok := stdlibFuncs[name]
	return f, ok
}

type unaryOp func(cty.Value) cty.Value
type binaryOp func(cty.Value, cty.Value) cty.Value

var unaryOps = map[string]unaryOp{
	"Negate": cty.Value.Negate, "Absolute": cty.Value.Absolute, "Not": cty.Value.Not, "Length": cty.Value.Length,
}
var binaryOps = map[string]binaryOp{
	"Equals": cty.Value.Equals, "NotEqual": cty.Value.NotEqual,
	"Add": cty.Value.Add, "Subtract": cty.Value.Subtract, "Multiply": cty.Value.Multiply,
	"Divide": cty.Value.Divide, "Modulo": cty.Value.Modulo,
	"LessThan": cty.Value.LessThan, "GreaterThan": cty.Value.GreaterThan,
	"LessThanOrEqualTo": cty.Value.LessThanOrEqualTo, "GreaterThanOrEqualTo": cty.Value.GreaterThanOrEqualTo,
	"And": cty.Value.And, "Or": cty.Value.Or,
	"Index": cty.Value.Index, "HasIndex": cty.Value.HasIndex, "HasElement": cty.Value.HasElement,
}

// apply runs the API; panics propagate to the caller's guard.
func apply(api string, args []cty.Value, x J) (cty.Value, error) {
	if f, ok := unaryOps[api]; ok {
		return f(args[0]), nil
	}
	if f, ok := binaryOps[api]; ok {
		return f(args[0], args[1]), nil
	}
	switch api {
	case "GetAttr":
		name := realName(asS(x["name"]))
		if b, ok := x["nfd"].(bool); ok && b {
			name = denorm(name) // a non-normalized spelling of the same name
		}
		return args[0].GetAttr(name), nil
	case "Convert":
		return convert.Convert(args[0], ConcretizeType(asJ(x["ty"])))
	case "ListVal":
		return cty.ListVal(args), nil
	case "SetVal":
		return cty.SetVal(args), nil
	case "TupleVal":
		return cty.TupleVal(args), nil
	case "MapVal", "ObjectVal":
		m := map[string]cty.Value{}
		keys := asL(x["keys"])
		for i, k := range keys {
			kk := asS(k)
			if strings.HasSuffix(kk, ":nfd") { // a non-normalized spelling of the name
				m[denorm(realName(strings.TrimSuffix(kk, ":nfd")))] = args[i]
			} else {
				m[realName(kk)] = args[i]
			}
		}
		if api == "MapVal" {
			return cty.MapVal(m), nil
		}
		return cty.ObjectVal(m), nil
	case "WithSameMarks":
		return args[0].WithSameMarks(args[1:]...), nil
	case "WithMarks":
		ms := []cty.ValueMarks{}
		for _, a := range args[1:] {
			ms = append(ms, a.Marks())
		}
		return args[0].WithMarks(ms...), nil
	case "Unmark":
		v, _ := args[0].Unmark()
		return v, nil
	case "UnmarkDeep":
		v, _ := args[0].UnmarkDeep()
		return v, nil
	case "TransformMarkLeaves":
		// a transformation whose callback marks every known primitive leaf
		return cty.Transform(args[0], func(p cty.Path, v cty.Value) (cty.Value, error) {
			if v.IsKnown() && !v.IsNull() && v.Type().IsPrimitiveType() {
				return v.Mark("m2"), nil
			}
			return v, nil
		})
	case "IsWhollyKnown":
		return cty.BoolVal(args[0].IsWhollyKnown()), nil
	case "IsKnown":
		return cty.BoolVal(args[0].IsKnown()), nil
	case "IsNull":
		return cty.BoolVal(args[0].IsNull()), nil
	case "HasWhollyKnownType":
		return cty.BoolVal(args[0].HasWhollyKnownType()), nil
	case "UnknownAsNull":
		return cty.UnknownAsNull(args[0]), nil
	}
	if len(api) > 3 && api[:3] == "fn:" {
		// "fn:f>g": g applied to the result of f (decode after encode)
		names := strings.Split(api[3:], ">")
		var v cty.Value
		for i, n := range names {
			f, ok := lookupFunc(n, x)
			if !ok {
				panic("harness: no such function " + api)
			}
			var err error
			if i == 0 {
				v, err = f.Call(args)
			} else {
				v, err = f.Call([]cty.Value{v})
			}
			if err != nil {
				return v, err
			}
		}
		return v, nil
	}
	panic("harness: unknown api " + api)
}

// run executes the call under a guard and describes the outcome.
func run(api string, args []cty.Value, x J) J {
	var v cty.Value
	var err error
	p, msg := guard(func() { v, err = apply(api, args, x) })
	if p {
		if len(msg) > 9 && msg[:9] == "harness: " {
			panic(msg)
		}
		return J{"ok": false, "fail": "panic", "msg": trunc(msg)}
	}
	if err != nil {
		r := J{"ok": false, "fail": "error", "msg": trunc(err.Error())}
		if ae, ok := err.(function.ArgError); ok {
			r["idx"] = ae.Index
		}
		if _, ok := err.(function.PanicError); ok {
			r["fail"] = "panicerror"
		}
		return r
	}
	return okVal(v)
}

func trunc(s string) string {
	if len(s) > 160 {
		return s[:160]
	}
	return s
}

func concretizeArgs(l []any, rep int) []cty.Value {
	out := make([]cty.Value, 0, len(l))
	for _, a := range l {
		out = append(out, Concretize(asJ(a), rep))
	}
	return out
}

func projectArgs(vs []cty.Value) []any {
	out := make([]any, 0, len(vs))
	for _, v := range vs {
		out = append(out, Project(v))
	}
	return out
}

func xOf(j J) J {
	if x, ok := j["x"].(map[string]any); ok {
		return x
	}
	return J{}
}

var _ = fmt.Sprint
