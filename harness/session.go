package main

// C20: sessions.  A store of live values; each step calls an accessor or
// constructor and then MUTATES the Go data involved (returned big.Float, mark
// sets, slices, maps, value sets, builders).  After every step every live value is
// re-projected; the trace spec requires the old ones to be unchanged.

import (
	"math/big"

	"github.com/zclconf/go-cty/cty"
	"github.com/zclconf/go-cty/cty/convert"
)

func init() { register("session", driveSession) }

type sess struct {
	store []cty.Value
	// checkpoint records the state of every live value in the middle of a step (right
	// after a value was created and before the Go data around it is mutated)
	checkpoint func()
}

func (s *sess) get(i int) cty.Value {
	if i <= 0 || i > len(s.store) {
		return s.store[len(s.store)-1]
	}
	return s.store[i-1]
}

func (s *sess) add(v cty.Value) {
	s.store = append(s.store, v)
	if s.checkpoint != nil {
		s.checkpoint()
	}
}

// step applies one step; returns whether it was applicable.
func (s *sess) step(kind string, i, j int) bool {
	v := s.get(i)
	w := s.get(j)
	uv, _ := v.UnmarkDeep()
	evil := cty.StringVal("evil")
	switch kind {
	case "AsBigFloat.mutate":
		if uv.Type() != cty.Number || !uv.IsKnown() || uv.IsNull() {
			return false
		}
		f := uv.AsBigFloat()
		f.SetInt64(999).SetPrec(10)
		f.Add(f, big.NewFloat(1))
	case "Marks.mutate":
		m := v.Marks()
		m["evil"] = struct{}{}
		for k := range m {
			if k != "evil" {
				delete(m, k)
			}
		}
	case "Unmark.mutate":
		_, m := v.Unmark()
		m["evil"] = struct{}{}
	case "UnmarkDeep.mutate":
		_, m := v.UnmarkDeep()
		m["evil"] = struct{}{}
	case "UnmarkDeepWithPaths.mutate":
		_, pvm := v.UnmarkDeepWithPaths()
		for k := range pvm {
			pvm[k].Marks["evil"] = struct{}{}
			if len(pvm[k].Path) > 0 {
				pvm[k].Path[0] = cty.GetAttrStep{Name: "evil"}
			}
		}
	case "AsValueSlice.mutate":
		if !uv.IsKnown() || uv.IsNull() || !(uv.Type().IsListType() || uv.Type().IsTupleType() || uv.Type().IsSetType()) {
			return false
		}
		sl := uv.AsValueSlice()
		for k := range sl {
			sl[k] = evil
		}
		if len(sl) > 0 {
			_ = append(sl[:0], evil)
		}
	case "AsValueMap.mutate":
		if !uv.IsKnown() || uv.IsNull() || !(uv.Type().IsMapType() || uv.Type().IsObjectType()) {
			return false
		}
		m := uv.AsValueMap()
		for k := range m {
			m[k] = evil
		}
		m["evil"] = evil
	case "AsValueSet.mutate":
		if !uv.IsKnown() || uv.IsNull() || !uv.Type().IsSetType() {
			return false
		}
		vs := uv.AsValueSet()
		for _, e := range vs.Values() {
			vs.Remove(e)
			break
		}
		vs.Add(cty.UnknownVal(uv.Type().ElementType()))
		vs.Add(cty.NullVal(uv.Type().ElementType()))
	case "ListVal.reuse", "TupleVal.reuse", "SetVal.reuse":
		if kind == "SetVal.reuse" && v.ContainsMarked() {
			v = uv
		}
		sl := []cty.Value{v, v}
		if kind != "ListVal.reuse" || w.Type().Equals(v.Type()) {
			sl[1] = w
		}
		if kind == "SetVal.reuse" {
			if !w.Type().Equals(v.Type()) {
				sl[1] = v
			}
			uw, _ := sl[1].UnmarkDeep()
			sl[1] = uw
		}
		var nv cty.Value
		switch kind {
		case "ListVal.reuse":
			nv = cty.ListVal(sl)
		case "TupleVal.reuse":
			nv = cty.TupleVal(sl)
		default:
			nv = cty.SetVal(sl)
		}
		s.add(nv)
		sl[0], sl[1] = evil, evil
	case "MapVal.reuse", "ObjectVal.reuse":
		m := map[string]cty.Value{"a": v, "b": v}
		if kind == "ObjectVal.reuse" || w.Type().Equals(v.Type()) {
			m["b"] = w
		}
		var nv cty.Value
		if kind == "MapVal.reuse" {
			nv = cty.MapVal(m)
		} else {
			nv = cty.ObjectVal(m)
		}
		s.add(nv)
		m["a"] = evil
		delete(m, "b")
		m["c"] = evil
	case "SetValFromValueSet.reuse":
		vs := cty.NewValueSet(uv.Type())
		vs.Add(uv)
		uw, _ := w.UnmarkDeep()
		if uw.Type().Equals(uv.Type()) {
			vs.Add(uw)
		}
		vs.Add(cty.UnknownVal(uv.Type()))
		vs.Add(cty.UnknownVal(uv.Type()).RefineNotNull())
		nv := cty.SetValFromValueSet(vs)
		s.add(nv)
		vs.Add(cty.NullVal(uv.Type()))
		vs.Add(cty.UnknownVal(uv.Type()).Refine().Null().NewValue())
		vs.Remove(uv)
	case "ValueSet.copy.mutate":
		if !uv.IsKnown() || uv.IsNull() || !uv.Type().IsSetType() {
			return false
		}
		ety := uv.Type().ElementType()
		a := uv.AsValueSet()
		nv1 := cty.SetValFromValueSet(a)
		b := a.Copy()
		b.Add(cty.UnknownVal(ety))
		nv2 := cty.SetValFromValueSet(b)
		s.add(nv1)
		s.add(nv2)
		a.Add(cty.UnknownVal(ety).RefineNotNull())
		a.Add(cty.NullVal(ety))
		b.Add(cty.NullVal(ety))
		for _, e := range a.Values() {
			a.Remove(e)
			break
		}
	case "Refine.reuse", "Refine.twice":
		if uv.IsKnown() || uv.Type() == cty.DynamicPseudoType {
			return false
		}
		b := v.Refine()
		x := b.NotNull().NewValue()
		s.add(x)
		switch {
		case uv.Type() == cty.Number:
			b.NumberRangeLowerBound(cty.NumberIntVal(1), true).NumberRangeUpperBound(cty.NumberIntVal(5), false)
		case uv.Type() == cty.String:
			b.StringPrefixFull("abc")
		case uv.Type().IsCollectionType():
			b.CollectionLengthLowerBound(1).CollectionLengthUpperBound(2)
		}
		y := b.NewValue()
		s.add(y)
		if kind == "Refine.twice" {
			// refining an already refined value must not touch the value it started from
			b2 := x.Refine()
			switch {
			case uv.Type() == cty.Number:
				b2.NumberRangeUpperBound(cty.NumberIntVal(3), true)
			case uv.Type() == cty.String:
				b2.StringPrefixFull("abcd")
			case uv.Type().IsCollectionType():
				b2.CollectionLengthUpperBound(1)
			}
			s.add(b2.NewValue())
		}
	case "op.Equals":
		s.add(v.Equals(w))
	case "op.Add":
		if uv.Type() != cty.Number || w.Type() != cty.Number {
			return false
		}
		s.add(v.Add(w))
	case "op.Index0":
		if !(uv.Type().IsListType() || uv.Type().IsTupleType()) {
			return false
		}
		s.add(v.Index(cty.Zero))
	case "op.GetAttrA":
		if !uv.Type().IsObjectType() || !uv.Type().HasAttribute("a") {
			return false
		}
		s.add(v.GetAttr("a"))
	case "op.Length":
		if !(uv.Type().IsCollectionType() || uv.Type().IsTupleType()) {
			return false
		}
		s.add(v.Length())
	case "op.Negate":
		if uv.Type() != cty.Number {
			return false
		}
		s.add(v.Negate())
	case "Mark":
		s.add(v.Mark("m3"))
	case "WithMarks.mutate":
		m := cty.NewValueMarks("m4")
		s.add(v.WithMarks(m))
		m["evil"] = struct{}{}
		delete(m, "m4")
	case "ElementIterator":
		if !uv.IsKnown() || uv.IsNull() || !uv.CanIterateElements() {
			return false
		}
		for it := uv.ElementIterator(); it.Next(); {
			k, e := it.Element()
			_, _ = k, e
		}
	case "GoString":
		_ = v.GoString()
	case "Hash":
		_ = uv.Hash()
	case "Range":
		_ = uv.Range()
		if !uv.IsKnown() {
			r := uv.Range()
			if uv.Type() == cty.Number {
				lo, _ := r.NumberLowerBound()
				if lo.IsKnown() && !lo.IsNull() {
					lo.AsBigFloat().SetInt64(777)
				}
			}
		}
	case "Convert.list":
		nv, err := convert.Convert(v, cty.List(cty.DynamicPseudoType))
		if err != nil {
			return false
		}
		s.add(nv)
	case "Transform.identity":
		nv, err := cty.Transform(v, func(p cty.Path, x cty.Value) (cty.Value, error) { return x, nil })
		if err != nil {
			return false
		}
		s.add(nv)
	case "Walk.pathmutate":
		cty.Walk(v, func(p cty.Path, x cty.Value) (bool, error) {
			for k := range p {
				p[k] = cty.GetAttrStep{Name: "evil"}
			}
			return true, nil
		})
	default:
		panic("harness: unknown session step " + kind)
	}
	return true
}

func driveSession(c *Ctx) error {
	return readLines(c.In, func(j J) error {
		s := &sess{}
		for _, vj := range asL(j["init"]) {
			s.add(Concretize(asJ(vj), 0))
		}
		c.Out.Emit(J{"ev": "sstart", "snap": projectArgs(s.store)})
		for _, sj := range asL(j["steps"]) {
			st := asJ(sj)
			s.checkpoint = func() {
				c.Out.Emit(J{"ev": "sstep", "step": st, "mid": true, "applied": true, "snap": projectArgs(s.store)})
			}
			ev := J{"ev": "sstep", "step": st}
			applied := false
			p, msg := guard(func() { applied = s.step(asS(st["k"]), asI(st["i"]), asI(st["j"])) })
			if p {
				// a panic inside a step that the API documents (e.g. constructor on mismatched
				// members) is not an immutability matter; the step is recorded as not applied
				ev["panic"] = trunc(msg)
			}
			ev["applied"] = applied && !p
			ev["snap"] = projectArgs(s.store)
			c.Out.Emit(ev)
		}
		return nil
	})
}
