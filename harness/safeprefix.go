package main

import (
	"github.com/zclconf/go-cty/cty"
)

func init() { register("safeprefix", driveSafePrefix) }

var abstractChars = map[string]string{
	"a": "a", "b": "b", "E": "é", "e": "e", "acute": "́", "L": "ᄀ", "V": "ᅡ", "T": "ᆨ",
	"H": "가", "Z": "‍", "M": "\U0001F3FD", "W": "\U0001F44B", "R": "\U0001F1E6", "CR": "\r", "LF": "\n",
	"/": "/", " ": " ", "eacute": "é", "=": "=", "S": "̸", "<": "<", "cedilla": "̧", "dot": "̣",
	// names used by the string-function reference (TextRef.tla)
	"omega": "\u03a9", "hangul": "\uac00", "wave": "\U0001F44B", "tone": "\U0001F3FD", "zwj": "\u200d", "ri": "\U0001F1E6", "TAB": "\t",
}

// multi-letter abstract names by code point (single-letter names stand for themselves,
// except the letters that name other code points in the safe-prefix alphabet only)
var abstractNames = map[string]string{}

func init() {
	for n, c := range abstractChars {
		if len([]rune(n)) > 1 {
			abstractNames[c] = n
		}
	}
}

func absString(l []any) string {
	s := ""
	for _, c := range l {
		r, ok := abstractChars[asS(c)]
		if !ok {
			panic("harness: unknown abstract char " + asS(c))
		}
		s += r
	}
	return s
}

// For every (prefix p, continuation c): what the safe constructor recorded, and the
// normalized form of p+c as go-cty itself stores it.
func driveSafePrefix(c *Ctx) error {
	return readLines(c.In, func(j J) error {
		for _, pj := range asL(j["ps"]) {
			p := absString(asL(pj))
			var rec, recFull string
			var v cty.Value
			pn, msg := guard(func() {
				v = cty.UnknownVal(cty.String).Refine().StringPrefix(p).NewValue()
				rec = v.Range().StringPrefix()
				recFull = cty.UnknownVal(cty.String).Refine().StringPrefixFull(p).NewValue().Range().StringPrefix()
			})
			for _, cj := range asL(j["cs"]) {
				cont := absString(asL(cj))
				ev := J{"ev": "sp", "p": pj, "c": cj}
				if pn {
					ev["rec"] = []any{}
					ev["recfull"] = []any{}
					ev["full"] = []any{}
					ev["incl"] = "P:" + trunc(msg)
					c.Out.Emit(ev)
					continue
				}
				full := cty.StringVal(p + cont)
				ev["rec"] = runes(rec)
				ev["recfull"] = runes(recFull)
				ev["full"] = runes(full.AsString())
				incl := "U"
				r := v.Range().Includes(full)
				if r.IsKnown() {
					if r.True() {
						incl = "T"
					} else {
						incl = "F"
					}
				}
				ev["incl"] = incl
				c.Out.Emit(ev)
			}
		}
		return nil
	})
}
