package main

// C18: gocty.  Abstract Go values / Go type descriptors (spec/GoBridge.tla) are built
// with reflect for a fixed family of Go types, pushed through the real
// ImpliedType / ToCtyValue / FromCtyValue, and projected back to abstract form.

import (
	"fmt"
	"math/big"
	"reflect"

	"github.com/zclconf/go-cty/cty"
	"github.com/zclconf/go-cty/cty/gocty"
)

func hasBigKind(gt J) bool {
	switch asS(gt["g"]) {
	case "bigint", "bigfloat":
		return true
	case "slice", "map", "ptr":
		return hasBigKind(asJ(gt["e"]))
	}
	return false
}

var prevCv = map[string]cty.Value{}
var prevInto = map[string]cty.Value{}

func init() { register("gobridge", driveGoBridge) }

type struct1 struct {
	A int     `cty:"a"`
	B *string `cty:"b"`
}

// two different struct types with the same Go type name, declared in separate function scopes
func recType1() reflect.Type {
	type rec struct {
		A int `cty:"a"`
	}
	return reflect.TypeOf(rec{})
}

func recType2() reflect.Type {
	type rec struct {
		A string `cty:"a"`
		C bool   `cty:"c"`
	}
	return reflect.TypeOf(rec{})
}

var goKinds = map[string]reflect.Type{
	"rec1": recType1(), "rec2": recType2(),
	"int": reflect.TypeOf(int(0)), "int8": reflect.TypeOf(int8(0)), "int16": reflect.TypeOf(int16(0)), "int32": reflect.TypeOf(int32(0)), "int64": reflect.TypeOf(int64(0)),
	"uint": reflect.TypeOf(uint(0)), "uint8": reflect.TypeOf(uint8(0)), "uint16": reflect.TypeOf(uint16(0)), "uint32": reflect.TypeOf(uint32(0)), "uint64": reflect.TypeOf(uint64(0)),
	"float32": reflect.TypeOf(float32(0)), "float64": reflect.TypeOf(float64(0)), "string": reflect.TypeOf(""), "bool": reflect.TypeOf(false),
	"struct1": reflect.TypeOf(struct1{}), "ctyvalue": reflect.TypeOf(cty.NilVal),
	"bigint": reflect.TypeOf(big.Int{}), "bigfloat": reflect.TypeOf(big.Float{}),
}

func goType(gt J) reflect.Type {
	switch g := asS(gt["g"]); g {
	case "slice":
		return reflect.SliceOf(goType(asJ(gt["e"])))
	case "map":
		return reflect.MapOf(reflect.TypeOf(""), goType(asJ(gt["e"])))
	case "ptr":
		return reflect.PointerTo(goType(asJ(gt["e"])))
	default:
		if t, ok := goKinds[g]; ok {
			return t
		}
		panic("harness: unknown go kind " + g)
	}
}

func numBig(n J) *big.Float { return Concretize(J{"ty": J{"k": "number"}, "st": "k", "v": n, "mk": []any{}}, 0).AsBigFloat() }

// buildGo makes the real Go value described by gv.
func buildGo(gv J) reflect.Value {
	gt := asJ(gv["t"])
	rt := goType(gt)
	out := reflect.New(rt).Elem()
	switch g := asS(gt["g"]); g {
	case "int", "int8", "int16", "int32", "int64":
		i, _ := numBig(asJ(gv["n"])).Int64()
		out.SetInt(i)
	case "uint", "uint8", "uint16", "uint32", "uint64":
		u, _ := numBig(asJ(gv["n"])).Uint64()
		out.SetUint(u)
	case "float32", "float64":
		f, _ := numBig(asJ(gv["n"])).Float64()
		out.SetFloat(f)
	case "bigint":
		i, _ := numBig(asJ(gv["n"])).Int(nil)
		out.Set(reflect.ValueOf(*i))
	case "bigfloat":
		f := new(big.Float).Copy(numBig(asJ(gv["n"])))
		out.Set(reflect.ValueOf(*f))
	case "string":
		out.SetString(joinRunes(asL(gv["s"])))
	case "bool":
		out.SetBool(asB(gv["b"]))
	case "slice":
		if asB(gv["nil"]) {
			return out
		}
		vs := asL(gv["vs"])
		out.Set(reflect.MakeSlice(rt, 0, len(vs)))
		for _, e := range vs {
			out = reflect.Append(out, buildGo(asJ(e)))
		}
	case "map":
		if asB(gv["nil"]) {
			return out
		}
		out.Set(reflect.MakeMap(rt))
		if m, ok := gv["m"].(map[string]any); ok {
			for k, e := range m {
				out.SetMapIndex(reflect.ValueOf(k), buildGo(asJ(e)))
			}
		}
	case "ptr":
		if asB(gv["nil"]) {
			return out
		}
		p := reflect.New(rt.Elem())
		p.Elem().Set(buildGo(asJ(gv["v"])))
		out.Set(p)
	case "struct1":
		out.Field(0).Set(buildGo(asJ(gv["a"])).Convert(reflect.TypeOf(int(0))))
		out.Field(1).Set(buildGo(asJ(gv["b"])))
	case "rec1":
		out.Field(0).Set(buildGo(asJ(gv["a"])).Convert(reflect.TypeOf(int(0))))
	case "rec2":
		out.Field(0).Set(buildGo(asJ(gv["a"])))
		out.Field(1).Set(buildGo(asJ(gv["c"])))
	case "ctyvalue":
		out.Set(reflect.ValueOf(Concretize(asJ(gv["v"]), 0)))
	}
	return out
}

// projectGo maps a real Go value of the family back to the abstract form.
func projectGo(v reflect.Value, gt J) J {
	out := J{"t": gt}
	switch g := asS(gt["g"]); g {
	case "int", "int8", "int16", "int32", "int64":
		out["n"] = ProjectNum(new(big.Float).SetPrec(128).SetInt64(v.Int()))
	case "uint", "uint8", "uint16", "uint32", "uint64":
		out["n"] = ProjectNum(new(big.Float).SetPrec(128).SetUint64(v.Uint()))
	case "float32", "float64":
		out["n"] = ProjectNum(new(big.Float).SetFloat64(v.Float()))
	case "bigint":
		i := v.Interface().(big.Int)
		out["n"] = ProjectNum(new(big.Float).SetInt(&i))
	case "bigfloat":
		f := v.Interface().(big.Float)
		out["n"] = ProjectNum(&f)
	case "string":
		out["s"] = runes(v.String())
	case "bool":
		out["b"] = v.Bool()
	case "slice":
		out["nil"] = v.IsNil()
		vs := []any{}
		for i := 0; i < v.Len(); i++ {
			vs = append(vs, projectGo(v.Index(i), asJ(gt["e"])))
		}
		out["vs"] = vs
	case "map":
		out["nil"] = v.IsNil()
		m := J{}
		for _, k := range v.MapKeys() {
			m[k.String()] = projectGo(v.MapIndex(k), asJ(gt["e"]))
		}
		out["m"] = m
	case "ptr":
		out["nil"] = v.IsNil()
		if v.IsNil() {
			out["v"] = projectGo(reflect.Zero(v.Type().Elem()), asJ(gt["e"]))
		} else {
			out["v"] = projectGo(v.Elem(), asJ(gt["e"]))
		}
	case "struct1":
		out["a"] = projectGo(v.Field(0), J{"g": "int"})
		out["b"] = projectGo(v.Field(1), J{"g": "ptr", "e": J{"g": "string"}})
	case "rec1":
		out["a"] = projectGo(v.Field(0), J{"g": "int"})
	case "rec2":
		out["a"] = projectGo(v.Field(0), J{"g": "string"})
		out["c"] = projectGo(v.Field(1), J{"g": "bool"})
	case "ctyvalue":
		out["v"] = Project(v.Interface().(cty.Value))
	}
	return out
}

func driveGoBridge(c *Ctx) error {
	return readLines(c.In, func(j J) error {
		switch asS(j["k"]) {
		case "gnum":
			n := asJ(j["n"])
			for rep := 0; rep < 3; rep++ {
				v := ConcretizeNum(n, rep)
				for _, kj := range asL(j["kinds"]) {
					kind := asS(kj)
					target := reflect.New(goKinds[kind])
					var err error
					p, msg := guard(func() { err = gocty.FromCtyValue(v, target.Interface()) })
					r := J{"ok": true}
					switch {
					case p:
						r = failed("panic", trunc(msg))
					case err != nil:
						r = failed("error", trunc(err.Error()))
					default:
						r["stored"] = projectGo(target.Elem(), J{"g": kind})["n"]
					}
					c.Out.Emit(J{"ev": "gnum", "n": ProjectNum(v.AsBigFloat()), "kind": kind, "r": r})
				}
			}
		case "grt":
			gv := asJ(j["gv"])
			gt := asJ(gv["t"])
			ev := J{"ev": "grt", "gv": gv}
			var goVal reflect.Value
			p, msg := guard(func() { goVal = buildGo(gv) })
			if p {
				return fmt.Errorf("harness: cannot build go value: %s", msg)
			}
			echo := projectGo(goVal, gt)
			ev["gv"] = echo
			var ty cty.Type
			var err error
			p, msg = guard(func() { ty, err = gocty.ImpliedType(goVal.Interface()) })
			switch {
			case p:
				ev["it"] = failed("panic", trunc(msg))
			case err != nil:
				ev["it"] = failed("error", trunc(err.Error()))
			default:
				ev["it"] = J{"ok": true, "t": ProjectType(ty)}
			}
			if ct, ok := j["ct"].(map[string]any); ok && hasBigKind(gt) {
				// no implied type exists for Go types holding big numbers: the caller names the cty type
				ty = ConcretizeType(ct)
				ev["it"] = J{"ok": true, "t": ProjectType(ty), "given": true}
			}
			ev["cv"] = J{"ok": false, "fail": "skipped"}
			ev["back"] = J{"ok": false, "fail": "skipped"}
			if ev["it"].(J)["ok"] == true {
				var cv cty.Value
				p, msg = guard(func() { cv, err = gocty.ToCtyValue(goVal.Interface(), ty) })
				ev["cv"] = resOf(cv, err, p, msg)
				if !p && err == nil {
					target := reflect.New(goVal.Type())
					p, msg = guard(func() { err = gocty.FromCtyValue(cv, target.Interface()) })
					switch {
					case p:
						ev["back"] = failed("panic", trunc(msg))
					case err != nil:
						ev["back"] = failed("error", trunc(err.Error()))
					default:
						ev["back"] = J{"ok": true, "gv": projectGo(target.Elem(), gt)}
					}
					// the same decode into a target that already holds the result of an earlier decode
					// (of the previous value of this Go type): the outcome must not depend on what the target held
					tk := goVal.Type().String()
					if prev, ok := prevCv[tk]; ok {
						dirty := reflect.New(goVal.Type())
						guard(func() { gocty.FromCtyValue(prev, dirty.Interface()) })
						var kept reflect.Value
						kept = reflect.New(goVal.Type())
						kept.Elem().Set(dirty.Elem()) // what a caller kept from the earlier decode (shares slices / maps / pointers)
						var k1 any
						kp, _ := guard(func() { k1 = projectGo(kept.Elem(), gt) })
						p, msg = guard(func() { err = gocty.FromCtyValue(cv, dirty.Interface()) })
						switch {
						case p:
							ev["back2"] = failed("panic", trunc(msg))
						case err != nil:
							ev["back2"] = failed("error", trunc(err.Error()))
						default:
							ev["back2"] = J{"ok": true, "gv": projectGo(dirty.Elem(), gt)}
						}
						if !kp {
							// the earlier result, as the caller still holds it, before and after the later decode
							guard(func() { ev["kept"] = []any{k1, projectGo(kept.Elem(), gt)} })
						}
					}
					prevCv[tk] = cv
				}
			}
			c.Out.Emit(ev)
		case "ginto":
			for _, vj := range asL(j["vals"]) {
				v := Concretize(asJ(vj), 0)
				for _, gj := range asL(j["gts"]) {
					gt := asJ(gj)
					target := reflect.New(goType(gt))
					var err error
					p, msg := guard(func() { err = gocty.FromCtyValue(v, target.Interface()) })
					r := J{"ok": true}
					switch {
					case p:
						r = failed("panic", trunc(msg))
					case err != nil:
						r = failed("error", trunc(err.Error()))
					}
					ev := J{"ev": "ginto", "v": Project(v), "gt": gt, "r": r}
					// the same decode into a target that already holds the result of the previous successful decode
					// into this Go type: outcome and stored Go value must not depend on what the target held before
					tk := target.Type().String()
					if !p && err == nil {
						guard(func() { ev["got"] = projectGo(target.Elem(), gt) })
					}
					if prev, ok := prevInto[tk]; ok {
						dirty := reflect.New(goType(gt))
						guard(func() { gocty.FromCtyValue(prev, dirty.Interface()) })
						var err2 error
						p2, msg2 := guard(func() { err2 = gocty.FromCtyValue(v, dirty.Interface()) })
						r2 := J{"ok": true}
						switch {
						case p2:
							r2 = failed("panic", trunc(msg2))
						case err2 != nil:
							r2 = failed("error", trunc(err2.Error()))
						default:
							guard(func() { r2["got"] = projectGo(dirty.Elem(), gt) })
						}
						ev["r2"] = r2
					}
					if !p && err == nil {
						prevInto[tk] = v
					}
					c.Out.Emit(ev)
				}
			}
		}
		return nil
	})
}
