package main

import (
	"github.com/zclconf/go-cty/cty"
)

func init() { register("pset", drivePSet) }

func concretizePathRep(l []any, rep int) cty.Path {
	var p cty.Path
	for _, sj := range l {
		s := asJ(sj)
		if asS(s["s"]) == "attr" {
			p = p.GetAttr(asS(s["n"]))
		} else {
			p = p.Index(Concretize(asJ(s["key"]), rep))
		}
	}
	return p
}

func drivePSet(c *Ctx) error {
	return readLines(c.In, func(j J) error {
		poolJ := asL(j["pool"])
		pool := make([]cty.Path, len(poolJ))
		echo := make([]any, len(poolJ))
		for i, pj := range poolJ {
			p := asJ(pj)
			pool[i] = concretizePathRep(asL(p["p"]), asI(p["rep"]))
			echo[i] = ProjectPath(pool[i])
		}
		sets := map[string]cty.PathSet{"s1": cty.NewPathSet(), "s2": cty.NewPathSet(), "s3": cty.NewPathSet()}
		snapshot := func() J {
			m := J{}
			for k, s := range sets {
				l := []any{}
				for _, p := range s.List() {
					l = append(l, ProjectPath(p))
				}
				m[k] = l
			}
			return m
		}
		c.Out.Emit(J{"ev": "preset", "pool": echo})
		for _, oj := range asL(j["beh"]) {
			o := asJ(oj)
			ev := J{"ev": "pop", "o": o}
			p, msg := guard(func() {
				switch asS(o["op"]) {
				case "Add":
					sets[asS(o["s"])].Add(pool[asI(o["e"])-1])
				case "AddAllSteps":
					sets[asS(o["s"])].AddAllSteps(pool[asI(o["e"])-1])
				case "Remove":
					sets[asS(o["s"])].Remove(pool[asI(o["e"])-1])
				case "Has":
					ev["res"] = sets[asS(o["s"])].Has(pool[asI(o["e"])-1])
				case "Equal":
					ev["res"] = sets[asS(o["s"])].Equal(sets[asS(o["t"])])
				case "Empty":
					ev["res"] = sets[asS(o["s"])].Empty()
				case "Union":
					sets[asS(o["u"])] = sets[asS(o["s"])].Union(sets[asS(o["t"])])
				case "Intersection":
					sets[asS(o["u"])] = sets[asS(o["s"])].Intersection(sets[asS(o["t"])])
				case "Subtract":
					sets[asS(o["u"])] = sets[asS(o["s"])].Subtract(sets[asS(o["t"])])
				case "SymmetricDifference":
					sets[asS(o["u"])] = sets[asS(o["s"])].SymmetricDifference(sets[asS(o["t"])])
				default:
					panic("harness: unknown pset op")
				}
			})
			if p {
				ev["panic"] = trunc(msg)
			}
			ev["slots"] = snapshot()
			c.Out.Emit(ev)
			if p {
				break
			}
		}
		return nil
	})
}
