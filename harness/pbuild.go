package main

// C19/C20: paths built step by step through the public convenience methods, held in three
// registers; after every step all registers are projected.

import (
	"github.com/zclconf/go-cty/cty"
)

func init() { register("pbuild", drivePBuild) }

func extendPath(p cty.Path, sj J, variant int) cty.Path {
	if asS(sj["s"]) == "attr" {
		if p == nil && variant%4 >= 2 {
			return cty.GetAttrPath(asS(sj["n"]))
		}
		return p.GetAttr(asS(sj["n"]))
	}
	key := Concretize(asJ(sj["key"]), 0)
	if p == nil && variant%4 >= 2 {
		// the package-level constructors of one-step paths
		if key.Type() == cty.Number && variant%8 >= 4 {
			if i, acc := key.AsBigFloat().Int64(); acc == 0 {
				return cty.IndexIntPath(int(i))
			}
		} else if key.Type() == cty.String && variant%8 >= 4 {
			return cty.IndexStringPath(key.AsString())
		}
		return cty.IndexPath(key)
	}
	if variant%2 == 1 {
		if key.Type() == cty.Number {
			if i, acc := key.AsBigFloat().Int64(); acc == 0 {
				return p.IndexInt(int(i))
			}
		} else if key.Type() == cty.String {
			return p.IndexString(key.AsString())
		}
	}
	return p.Index(key)
}

func drivePBuild(c *Ctx) error {
	n := 0
	return readLines(c.In, func(j J) error {
		n++
		steps := asL(j["steps"])
		echo := []any{}
		for _, s := range steps {
			echo = append(echo, ProjectPath(extendPath(nil, asJ(s), 0))[0])
		}
		regs := map[string]cty.Path{"cur": nil, "s1": nil, "s2": nil}
		c.Out.Emit(J{"ev": "breset", "steps": echo})
		for i, oj := range asL(j["beh"]) {
			o := asJ(oj)
			ev := J{"ev": "bop", "o": o}
			p, msg := guard(func() {
				switch asS(o["op"]) {
				case "Push":
					regs["cur"] = extendPath(regs["cur"], asJ(steps[asI(o["k"])-1]), n+i)
				case "Fork":
					regs[asS(o["r"])] = extendPath(regs["cur"], asJ(steps[asI(o["k"])-1]), n+i)
				case "Save":
					regs[asS(o["r"])] = regs["cur"]
				case "Load":
					regs["cur"] = regs[asS(o["r"])]
				case "Copy":
					regs["cur"] = regs["cur"].Copy()
				case "Reset":
					regs["cur"] = nil
				default:
					panic("harness: unknown pbuild op")
				}
			})
			if p {
				ev["panic"] = trunc(msg)
			}
			ev["regs"] = J{"cur": ProjectPath(regs["cur"]), "s1": ProjectPath(regs["s1"]), "s2": ProjectPath(regs["s2"])}
			// relations between the registers as the path API reports them
			hp, eq := J{}, J{}
			for _, x := range []string{"cur", "s1", "s2"} {
				hx, ex := J{}, J{}
				for _, y := range []string{"cur", "s1", "s2"} {
					x, y := x, y
					guard(func() { hx[y] = regs[x].HasPrefix(regs[y]) })
					guard(func() { ex[y] = regs[x].Equals(regs[y]) })
				}
				hp[x], eq[x] = hx, ex
			}
			ev["hp"], ev["eq"] = hp, eq
			c.Out.Emit(ev)
			if p {
				break
			}
		}
		return nil
	})
}
