package main

import (
	"github.com/zclconf/go-cty/cty"
	"github.com/zclconf/go-cty/cty/convert"
)

func init() { register("unify", driveUnify) }

func driveUnify(c *Ctx) error {
	return readLines(c.In, func(j J) error {
		valsByType := map[string][]cty.Value{}
		for _, tv := range asL(j["vals"]) {
			t := asJ(tv)
			key := jsonKey(ProjectType(ConcretizeType(asJ(t["t"]))))
			valsByType[key] = concretizeArgs(asL(t["vs"]), 0)
		}
		unifyRes := func(types []cty.Type, unsafe bool) (J, cty.Type, []convert.Conversion) {
			var ty cty.Type
			var convs []convert.Conversion
			p, msg := guard(func() {
				if unsafe {
					ty, convs = convert.UnifyUnsafe(types)
				} else {
					ty, convs = convert.Unify(types)
				}
			})
			if p {
				return J{"ok": false, "panic": trunc(msg)}, ty, nil
			}
			if ty == cty.NilType {
				return J{"ok": false}, ty, nil
			}
			return J{"ok": true, "t": ProjectType(ty)}, ty, convs
		}
		for _, lj := range asL(j["lists"]) {
			var types []cty.Type
			for _, tj := range asL(lj) {
				types = append(types, ConcretizeType(asJ(tj)))
			}
			tproj := make([]any, len(types))
			for i, t := range types {
				tproj[i] = ProjectType(t)
			}
			orig := append([]cty.Type(nil), types...)
			reread := func(l []cty.Type) string { // the caller's list and the input types themselves, as they report now
				pl := make([]any, 0, 2*len(l))
				for _, t := range l {
					pl = append(pl, ProjectType(t))
				}
				for _, t := range orig {
					pl = append(pl, ProjectType(t))
				}
				return digestOf(pl)
			}
			for _, unsafe := range []bool{false, true} {
				types = append([]cty.Type(nil), orig...) // the list handed to Unify
				it := reread(types)
				r, ty, convs := unifyRes(types, unsafe)
				it2 := reread(types)
				types = orig
				other, _, _ := unifyRes(append([]cty.Type(nil), orig...), !unsafe)
				ev := J{"ev": "unify", "types": tproj, "unsafe": unsafe, "r": r, "other": other, "it": it, "it2": it2}
				cl := []any{}
				if r["ok"] == true {
					for i, cv := range convs {
						ce := J{"nil": cv == nil, "safeavail": false, "apps": []any{}}
						if cv != nil {
							guard(func() { ce["safeavail"] = convert.GetConversion(types[i], ty) != nil })
							apps := []any{}
							for _, v := range valsByType[jsonKey(tproj[i])] {
								var out cty.Value
								var err error
								p, msg := guard(func() { out, err = cv(v) })
								apps = append(apps, J{"in": Project(v), "r": resOf(out, err, p, msg)})
							}
							ce["apps"] = apps
						}
						cl = append(cl, ce)
					}
				}
				ev["convs"] = cl
				c.Out.Emit(ev)
			}
		}
		return nil
	})
}
