package main

import (
	"encoding/json"

	"github.com/zclconf/go-cty/cty"
	"github.com/zclconf/go-cty/cty/function/stdlib"
	ctyjson "github.com/zclconf/go-cty/cty/json"
)

// C07: type algebra.  Input: {"i":n,"t":T} type definitions emitted by TLC.
// Output: "tdef" echo events, per-type "tone" events and "tpair" events for all
// ordered pairs (optionally restricted by stride for sampling), "ttriple" events.
func init() { register("c07", driveC07) }

func driveC07(c *Ctx) error {
	type ent struct {
		i int
		t cty.Type
	}
	var ts []ent
	err := readLines(c.In, func(j J) error {
		t := ConcretizeType(asJ(j["t"]))
		ts = append(ts, ent{asI(j["i"]), t})
		return nil
	})
	if err != nil {
		return err
	}
	// Further physical representations of tuple types: types the library itself derives from an existing
	// type and that share its element-type slice (the type predicted by stdlib slice for an unknown tuple
	// is Tuple(elementTypes[0:k])).  They are appended as additional entries; their definitions are the
	// projections of what was really built, so the trace spec judges them like any other type.
	if c.Args["derived"] != "0" {
		n0 := len(ts)
		next := 0
		for _, e := range ts {
			if e.i > next {
				next = e.i
			}
		}
		for _, e := range ts[:n0] {
			if !e.t.IsTupleType() {
				continue
			}
			for k := 1; k <= e.t.Length(); k++ {
				var dt cty.Type
				var err error
				p, _ := guard(func() {
					dt, err = stdlib.SliceFunc.ReturnTypeForValues([]cty.Value{cty.UnknownVal(e.t), cty.NumberIntVal(0), cty.NumberIntVal(int64(k))})
				})
				if p || err != nil || !dt.IsTupleType() {
					continue
				}
				next++
				ts = append(ts, ent{next, dt})
			}
		}
	}
	for _, e := range ts {
		c.Out.Emit(J{"ev": "tdef", "i": e.i, "t": ProjectType(e.t)})
	}
	// descriptions serialized in a first pass over ALL types and kept (through both entry points), to be decoded
	// only after every other type has been serialized too: a description belongs to the caller once returned
	kept := make([][]byte, len(ts))
	for k, e := range ts {
		k, e := k, e
		guard(func() {
			var b []byte
			var err error
			if k%2 == 0 {
				b, err = ctyjson.MarshalType(e.t)
			} else {
				b, err = e.t.MarshalJSON()
			}
			if err == nil {
				kept[k] = b
			}
		})
	}
	// rev=1: a second process that visits the types in the opposite order (and stops after the per-type observations):
	// what a type's operations report must not depend on which other types the process handled before
	rev := c.Args["rev"] == "1"
	order := make([]int, len(ts))
	for k := range ts {
		order[k] = k
		if rev {
			order[k] = len(ts) - 1 - k
		}
	}
	for _, k := range order {
		e := ts[k]
		t := e.t
		ev := J{"ev": "tone", "i": e.i}
		if kept[k] != nil {
			var rt2 J
			p2, msg2 := guard(func() {
				back, err := ctyjson.UnmarshalType(kept[k])
				if err != nil {
					rt2 = J{"ok": false, "fail": "unmarshal", "msg": trunc(err.Error())}
					return
				}
				rt2 = J{"ok": true, "t": ProjectType(back), "eq": back.Equals(t), "eqr": t.Equals(back)}
			})
			if p2 {
				rt2 = J{"ok": false, "fail": "panic", "msg": trunc(msg2)}
			}
			ev["json2"] = rt2
		}
		ev["hasdyn"] = t.HasDynamicTypes()
		ev["eqself"] = t.Equals(t)
		s1 := t.WithoutOptionalAttributesDeep()
		s2 := s1.WithoutOptionalAttributesDeep()
		ev["strip"] = ProjectType(s1)
		ev["strip2"] = ProjectType(s2)
		ev["stripeq"] = s1.Equals(s2)
		// JSON round trip (capsule types cannot be serialized)
		var rt J
		p, msg := guard(func() {
			b, err := ctyjson.MarshalType(t)
			if err != nil {
				rt = J{"ok": false, "fail": "marshal", "msg": err.Error()}
				return
			}
			if !json.Valid(b) {
				rt = J{"ok": false, "fail": "invalidjson", "msg": string(b)}
				return
			}
			back, err := ctyjson.UnmarshalType(b)
			if err != nil {
				rt = J{"ok": false, "fail": "unmarshal", "msg": err.Error()}
				return
			}
			rt = J{"ok": true, "t": ProjectType(back), "eq": back.Equals(t), "eqr": t.Equals(back)}
		})
		if p {
			rt = J{"ok": false, "fail": "panic", "msg": msg}
		}
		ev["json"] = rt
		c.Out.Emit(ev)
	}
	if rev {
		return nil
	}
	stride := 1
	if s, ok := c.Args["stride"]; ok {
		json.Unmarshal([]byte(s), &stride)
	}
	n := 0
	for _, a := range ts {
		for _, b := range ts {
			n++
			if stride > 1 && (n+int(c.Seed))%stride != 0 && a.i != b.i {
				continue
			}
			var ev J
			p, msg := guard(func() {
				ev = J{"ev": "tpair", "i": a.i, "j": b.i,
					"eq":    a.t.Equals(b.t),
					"nerr":  len(a.t.TestConformance(b.t)),
					"seq":   a.t.WithoutOptionalAttributesDeep().Equals(b.t.WithoutOptionalAttributesDeep()),
				}
			})
			if p {
				ev = J{"ev": "tpair", "i": a.i, "j": b.i, "panic": msg}
			}
			c.Out.Emit(ev)
		}
	}
	// every type definition once more, after all the operations above ran on it
	for _, e := range ts {
		c.Out.Emit(J{"ev": "tsame", "i": e.i, "t": ProjectType(e.t)})
	}
	return nil
}
