package main

// C20: the same call executed by several goroutines released together on SHARED
// operand values (built with -race by the check).

import (
	"crypto/sha256"
	"fmt"
	"sort"
	"sync"

	"github.com/zclconf/go-cty/cty"
	"github.com/zclconf/go-cty/cty/convert"
	ctyjson "github.com/zclconf/go-cty/cty/json"
	"github.com/zclconf/go-cty/cty/msgpack"
)

// typeBattery runs the read-only type API on a shared type and describes what it saw.
func typeBattery(t cty.Type) string {
	out := ""
	guard(func() {
		out += fmt.Sprint(t.Equals(t), t.HasDynamicTypes(), len(t.TestConformance(t)), t.FriendlyName(), "|")
		s := t.WithoutOptionalAttributesDeep()
		out += fmt.Sprint(s.Equals(t), s.GoString(), "|", t.GoString(), "|")
		if b, err := ctyjson.MarshalType(t); err == nil {
			out += string(b)
		}
		if t.IsObjectType() {
			out += fmt.Sprint(len(t.AttributeTypes()), t.OptionalAttributes())
		}
		if t.IsTupleType() {
			out += fmt.Sprint(len(t.TupleElementTypes()))
		}
	})
	return out
}

// valueBattery runs read-only accessors and whole-value operations on a shared value.
func valueBattery(v cty.Value) string {
	out := ""
	guard(func() {
		out += fmt.Sprintf("%#v|", v)
		u, pvm := v.UnmarkDeepWithPaths()
		out += fmt.Sprint(len(pvm), u.IsWhollyKnown(), u.HasWhollyKnownType(), "|")
		if u.IsKnown() && !u.IsNull() {
			guard(func() { out += fmt.Sprint(u.Hash(), "|") })
		}
		if !u.IsKnown() {
			r := u.Range()
			out += fmt.Sprint(r.DefinitelyNotNull(), r.TypeConstraint().FriendlyName(), "|")
		}
		if c, err := convert.Convert(v, v.Type()); err == nil {
			out += fmt.Sprint(c.RawEquals(v), "|")
		}
		if c, err := convert.Convert(u, cty.DynamicPseudoType); err == nil {
			out += fmt.Sprint(c.RawEquals(u), "|")
		}
		if b, err := ctyjson.Marshal(u, u.Type()); err == nil {
			out += string(b) + "|"
		}
		if b, err := msgpack.Marshal(u, u.Type()); err == nil {
			out += fmt.Sprintf("%x|", b)
		}
		n := 0
		cty.Walk(u, func(p cty.Path, m cty.Value) (bool, error) { n += len(p) + 1; return true, nil })
		out += fmt.Sprint(n, "|", typeBattery(v.Type()))
	})
	return out
}

func digest(s string) string { return fmt.Sprintf("%x", sha256.Sum256([]byte(s)))[:16] }

func distinct(l []string) []any {
	seen := map[string]bool{}
	out := []string{}
	for _, x := range l {
		if !seen[x] {
			seen[x] = true
			out = append(out, x)
		}
	}
	sort.Strings(out)
	r := []any{}
	for _, x := range out {
		r = append(r, x)
	}
	return r
}

func init() { register("conc", driveConc) }

func driveConc(c *Ctx) error {
	const G = 8
	line := 0
	return readLines(c.In, func(j J) error {
		line++
		battery := line%3 == int(c.Seed)%3
		if tj, ok := j["t"]; ok {
			// a shared TYPE used by all goroutines
			t := ConcretizeType(asJ(tj))
			seq := typeBattery(t)
			var wg sync.WaitGroup
			start := make(chan struct{})
			res := make([]string, G)
			for g := 0; g < G; g++ {
				wg.Add(1)
				go func(g int) { defer wg.Done(); <-start; res[g] = typeBattery(t) }(g)
			}
			close(start)
			wg.Wait()
			ds := make([]string, G)
			for i, r := range res {
				ds[i] = digest(r)
			}
			rc := []any{}
			for _, d := range distinct(ds) {
				rc = append(rc, J{"ok": true, "d": d})
			}
			c.Out.Emit(J{"ev": "conc", "api": "type", "x": J{}, "a": []any{}, "rseq": J{"ok": true, "d": digest(seq)}, "rconc": rc})
			return nil
		}
		api := asS(j["api"])
		xs := asL(j["xs"])
		if len(xs) == 0 {
			xs = []any{J{}}
		}
		for _, xx := range xs {
			x := asJ(xx)
			args := concretizeArgs(asL(j["a"]), 0)
			rseq := run(api, args, x)
			// what the read-only battery reports sequentially, and per goroutine (digests; compared by the trace spec)
			bat := func() string {
				if !battery {
					return ""
				}
				s := ""
				for _, a := range args {
					s += valueBattery(a) + "#"
				}
				return digest(s)
			}
			bseq := bat()
			bconc := make([]string, G)
			var wg sync.WaitGroup
			start := make(chan struct{})
			res := make([]J, G)
			for g := 0; g < G; g++ {
				wg.Add(1)
				go func(g int) {
					defer wg.Done()
					<-start
					res[g] = run(api, args, x)
					// read-only accessors and whole-value operations on the shared operands as well
					for _, a := range args {
						_ = Project(a)
					}
					bconc[g] = bat()
				}(g)
			}
			close(start)
			wg.Wait()
			seen := map[string]bool{}
			rc := []any{}
			for _, r := range res {
				if k := jsonKey(r); !seen[k] {
					seen[k] = true
					rc = append(rc, r)
				}
			}
			sort.Slice(rc, func(i, k int) bool { return jsonKey(rc[i]) < jsonKey(rc[k]) })
			c.Out.Emit(J{"ev": "conc", "api": api, "x": x, "a": projectArgs(args), "rseq": rseq, "rconc": rc, "bseq": bseq, "bconc": distinct(bconc)})
		}
		return nil
	})
}
