package main

// C20: the same call executed by several goroutines released together on SHARED
// operand values (built with -race by the check).

import (
	"sort"
	"sync"
)

func init() { register("conc", driveConc) }

func driveConc(c *Ctx) error {
	const G = 8
	return readLines(c.In, func(j J) error {
		api := asS(j["api"])
		xs := asL(j["xs"])
		if len(xs) == 0 {
			xs = []any{J{}}
		}
		for _, xx := range xs {
			x := asJ(xx)
			args := concretizeArgs(asL(j["a"]), 0)
			rseq := run(api, args, x)
			var wg sync.WaitGroup
			start := make(chan struct{})
			res := make([]J, G)
			for g := 0; g < G; g++ {
				wg.Add(1)
				go func(g int) {
					defer wg.Done()
					<-start
					res[g] = run(api, args, x)
					// read-only accessors on the shared operands as well
					for _, a := range args {
						_ = Project(a)
					}
				}(g)
			}
			close(start)
			wg.Wait()
			seen := map[string]bool{}
			rc := []any{}
			for _, r := range res {
				if k := jsonKey(r); !seen[k] {
					seen[k] = true
					rc = append(rc, r)
				}
			}
			sort.Slice(rc, func(i, k int) bool { return jsonKey(rc[i]) < jsonKey(rc[k]) })
			c.Out.Emit(J{"ev": "conc", "api": api, "x": x, "a": projectArgs(args), "rseq": rseq, "rconc": rc})
		}
		return nil
	})
}
