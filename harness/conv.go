package main

import (
	"github.com/zclconf/go-cty/cty"
	"github.com/zclconf/go-cty/cty/convert"
)

var prevConvIn = map[string]cty.Value{}
var dynConvs = map[string]convert.Conversion{}
var lastOther = map[string]cty.Value{}
var lastAny = map[string]cty.Value{}

func init() { register("conv", driveConv) }

func convRes(v cty.Value, t cty.Type) J {
	var out cty.Value
	var err error
	p, msg := guard(func() { out, err = convert.Convert(v, t) })
	return resOf(out, err, p, msg)
}

func offered(in cty.Value, t cty.Type, unsafe bool) string {
	res := "nil"
	p, _ := guard(func() {
		var cv convert.Conversion
		if unsafe {
			cv = convert.GetConversionUnsafe(in.Type(), t)
		} else {
			cv = convert.GetConversion(in.Type(), t)
		}
		if cv == nil {
			return
		}
		_, err := cv(in)
		if err != nil {
			res = "err"
		} else {
			res = "ok"
		}
	})
	if p {
		return "panic"
	}
	return res
}

func driveConv(c *Ctx) error {
	return readLines(c.In, func(j J) error {
		var targets []cty.Type
		var targetsJ []J
		for _, tj := range asL(j["targets"]) {
			targets = append(targets, ConcretizeType(asJ(tj)))
			targetsJ = append(targetsJ, asJ(tj))
		}
		for _, vj := range asL(j["vals"]) {
			vv := asJ(vj)
			in := Concretize(asJ(vv["v"]), 0)
			cands := concretizeArgs(asL(vv["cands"]), 0)
			for ti, t := range targets {
				pin := Project(in)
				ev := J{"ev": "conv", "in": pin, "target": ProjectType(t), "iv": digestOf(pin)}
				_ = targetsJ[ti]
				r := convRes(in, t)
				ev["r"] = r
				ev["r2"] = J{"ok": false}
				ev["back"] = J{"ok": false}
				if r["ok"] == true {
					var out cty.Value
					guard(func() { out, _ = convert.Convert(in, t) })
					ev["r2"] = convRes(out, t)
					ev["back"] = convRes(out, in.Type())
				}
				// one conversion obtained once and applied first to the previous value of this type, then to this one:
				// the result must be the result of converting this value alone
				tk := jsonKey(ProjectType(in.Type())) + "|" + jsonKey(ProjectType(t))
				guard(func() {
					cv := convert.GetConversionUnsafe(in.Type(), t)
					if cv == nil {
						return
					}
					if prev, ok := prevConvIn[tk]; ok {
						guard(func() { cv(prev) })
						var out cty.Value
						var err error
						p, msg := guard(func() { out, err = cv(in) })
						ev["r3"] = resOf(out, err, p, msg)
					}
				})
				prevConvIn[tk] = in
				// the conversion for a dynamically typed source position, obtained once per target and fed this value, then a value of
				// another type, then this value again
				tkey := jsonKey(ProjectType(t))
				cvd, have := dynConvs[tkey]
				if !have {
					guard(func() { cvd = convert.GetConversionUnsafe(cty.DynamicPseudoType, t) })
					dynConvs[tkey] = cvd
				}
				if cvd != nil {
					apply := func(v cty.Value) J {
						var out cty.Value
						var err error
						p, msg := guard(func() { out, err = cvd(v) })
						return resOf(out, err, p, msg)
					}
					ev["r4"] = apply(in)
					if other, ok := lastOther[tkey]; ok && !other.Type().Equals(in.Type()) {
						apply(other)
						ev["r5"] = apply(in)
					}
				}
				if o, ok := lastOther[tkey]; !ok || !o.Type().Equals(in.Type()) || true {
					if prevAny, ok2 := lastAny[tkey]; ok2 && !prevAny.Type().Equals(in.Type()) {
						lastOther[tkey] = prevAny
					}
				}
				lastAny[tkey] = in
				ev["safe"] = offered(in, t, false)
				ev["unsafe"] = offered(in, t, true)
				cl := []any{}
				if r["ok"] == true {
					for _, cv := range cands {
						cl = append(cl, J{"c": Project(cv), "r": convRes(cv, t)})
					}
				}
				ev["cands"] = cl
				ev["iv2"] = digestOf(Project(in)) // the converted value re-read after all the calls
				c.Out.Emit(ev)
			}
		}
		return nil
	})
}
