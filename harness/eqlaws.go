package main

import (
	"strings"
	"bytes"
	"math/big"

	"github.com/zclconf/go-cty/cty"
)

func init() { register("eqlaws", driveEqLaws) }

func tri(f func() cty.Value) string {
	out := "P"
	guard(func() {
		r := f()
		switch {
		case !r.IsKnown():
			out = "U"
		case r.IsNull():
			out = "N"
		case r.True():
			out = "T"
		default:
			out = "F"
		}
	})
	return out
}

// physical variants of one abstract value: several representations
func variants(a J, n int) []cty.Value {
	out := []cty.Value{}
	seen := [][]byte{}
	for rep := 0; rep < n; rep++ {
		v := Concretize(a, rep)
		// keep variants that differ physically (number precision / mantissa / sign of zero) or that were
		// built from a different input spelling of a string that has a non-normalized form
		key := physKey(v)
		if ak := jsonKey(a); rep%2 == 1 && (strings.Contains(ak, "eacute") || strings.Contains(ak, "omega") || strings.Contains(ak, "hangul")) {
			key = append(key, 'd')
		}
		dup := false
		for _, s := range seen {
			if bytes.Equal(s, key) {
				dup = true
			}
		}
		if !dup {
			seen = append(seen, key)
			out = append(out, v)
		}
	}
	return out
}

func physKey(v cty.Value) []byte {
	var b bytes.Buffer
	cty.Walk(v, func(p cty.Path, x cty.Value) (bool, error) {
		if x.IsKnown() && !x.IsNull() && x.Type() == cty.Number {
			f := x.AsBigFloat()
			b.WriteString(f.Text('p', 0))
			b.WriteByte(byte(f.Prec()))
			b.WriteByte(byte(f.Prec() >> 8))
			if f.Signbit() {
				b.WriteByte('-')
			}
		}
		b.WriteByte('|')
		return true, nil
	})
	return b.Bytes()
}

func permutations(n int) [][]int {
	if n == 0 {
		return [][]int{{}}
	}
	var out [][]int
	for _, p := range permutations(n - 1) {
		for i := 0; i <= len(p); i++ {
			q := append(append(append([]int{}, p[:i]...), n-1), p[i:]...)
			out = append(out, q)
		}
	}
	return out
}

func driveEqLaws(c *Ctx) error {
	nrep := 6
	if c.Tier == "thorough" {
		nrep = 10
	}
	return readLines(c.In, func(j J) error {
		switch asS(j["k"]) {
		case "group":
			var vals []cty.Value
			src := []any{} // which abstract value each physical value was built from
			maxN := 64
			for ai, a := range asL(j["vals"]) {
				vs := variants(asJ(a), nrep)
				if !(len(vs) > 0 && vs[0].Type() == cty.Number) && len(vs) > 2 {
					vs = vs[:2]
				}
				vals = append(vals, vs...)
				for range vs {
					src = append(src, ai)
				}
			}
			if len(vals) > maxN {
				// keep a seeded selection, always retaining neighbours (variants of one value)
				start := c.Rng.Intn(len(vals) - maxN + 1)
				vals = vals[start : start+maxN]
				src = src[start : start+maxN]
			}
			n := len(vals)
			raw := make([]any, n)
			eq := make([]any, n)
			hash := make([]any, n)
			lt := make([]any, n)
			gt := make([]any, n)
			sb := make([]any, n) // observation: the two numbers have the same binary value (big.Float.Cmp == 0)
			hs := make([]int, n)
			hok := make([]bool, n)
			for i, v := range vals {
				i, v := i, v
				p, _ := guard(func() { hs[i] = v.Hash() })
				hok[i] = !p
			}
			for i := 0; i < n; i++ {
				r, e, h, l, g := make([]any, n), make([]any, n), make([]any, n), make([]any, n), make([]any, n)
				b0 := make([]any, n)
				for k := 0; k < n; k++ {
					a, b := vals[i], vals[k]
					rv := false
					guard(func() { rv = a.RawEquals(b) })
					r[k] = rv
					e[k] = tri(func() cty.Value { return a.Equals(b) })
					h[k] = hok[i] && hok[k] && hs[i] == hs[k]
					l[k] = tri(func() cty.Value { return a.LessThan(b) })
					g[k] = tri(func() cty.Value { return a.GreaterThan(b) })
					b0[k] = false
					if a.Type() == cty.Number && b.Type() == cty.Number && a.IsKnown() && b.IsKnown() && !a.IsNull() && !b.IsNull() {
						b0[k] = a.AsBigFloat().Cmp(b.AsBigFloat()) == 0
					}
				}
				raw[i], eq[i], hash[i], lt[i], gt[i], sb[i] = r, e, h, l, g, b0
			}
			c.Out.Emit(J{"ev": "eqgroup", "vals": projectArgs(vals), "raw": raw, "eq": eq, "hash": hash, "lt": lt, "gt": gt, "sb": sb, "src": src})
		case "setperm":
			in := asL(j["input"])
			seen := map[string]bool{}
			results := []any{}
			physOrders := map[string]bool{} // iteration orders as the physical values (text and precision of every number) show them
			rounds := 3
			fixed, _ := j["reps"].([]any) // a representation per input (numbers tied in value but held at different precisions), tried repeatedly
			if len(fixed) == len(in) {
				rounds = 24
			}
			for rep := 0; rep < rounds; rep++ {
				vals := concretizeArgs(in, rep)
				if len(fixed) == len(in) {
					for i := range vals {
						vals[i] = Concretize(asJ(in[i]), asI(fixed[i]))
					}
				}
				if rep == 1 && len(fixed) != len(in) {
					// mix representations within one input list
					for i := range vals {
						if i%2 == 1 {
							vals[i] = Concretize(asJ(in[i]), 3)
						}
					}
				}
				for _, p := range permutations(len(vals)) {
					pv := make([]cty.Value, len(vals))
					for i, k := range p {
						pv[i] = vals[k]
					}
					var r J
					pn, msg := guard(func() {
						sv := cty.SetVal(pv)
						r = okVal(sv)
						physOrders[string(physKey(sv))] = true
					})
					if pn {
						r = failed("panic", trunc(msg))
					}
					if k := jsonKey(r); !seen[k] {
						seen[k] = true
						results = append(results, r)
					}
				}
			}
			inVals := concretizeArgs(in, 0)
			if len(fixed) == len(in) {
				for i := range inVals {
					inVals[i] = Concretize(asJ(in[i]), asI(fixed[i]))
				}
			}
			sev := J{"ev": "setperm", "input": projectArgs(inVals), "results": results}
			if len(fixed) == len(in) {
				sev["tied"] = true
				sev["orders"] = len(physOrders)
			}
			c.Out.Emit(sev)
		}
		return nil
	})
}

var _ = big.NewFloat
