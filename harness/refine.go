package main

// C05: replays behaviours of the Refine state machine (spec/Refine.tla) against the
// real RefinementBuilder and records what the builder did after every call.

import (
	"github.com/zclconf/go-cty/cty"
)

func init() { register("refine", driveRefine) }

func includes(v cty.Value, cands []cty.Value) []any {
	out := make([]any, len(cands))
	for i, c := range cands {
		var ans string
		p, _ := guard(func() {
			uv, _ := v.Unmark()
			r := uv.Range().Includes(c)
			switch {
			case !r.IsKnown():
				ans = "U"
			case r.True():
				ans = "T"
			default:
				ans = "F"
			}
		})
		if p {
			ans = "P"
		}
		out[i] = ans
	}
	return out
}

func applyRefineCall(b *cty.RefinementBuilder, call J) {
	switch asS(call["c"]) {
	case "NotNull":
		b.NotNull()
	case "Null":
		b.Null()
	case "LowerBound":
		b.NumberRangeLowerBound(ConcretizeNum(asJ(call["n"]), 0), asB(call["inc"]))
	case "UpperBound":
		b.NumberRangeUpperBound(ConcretizeNum(asJ(call["n"]), 0), asB(call["inc"]))
	case "LenLower":
		b.CollectionLengthLowerBound(asI(call["k"]))
	case "LenUpper":
		b.CollectionLengthUpperBound(asI(call["k"]))
	case "PrefixFull":
		b.StringPrefixFull(joinRunes(asL(call["p"])))
	case "PrefixSafe":
		b.StringPrefix(joinRunes(asL(call["p"])))
	case "LenExact":
		b.CollectionLength(asI(call["k"]))
	case "RangeIncl":
		b.NumberRangeInclusive(ConcretizeNum(asJ(call["lo"]), 0), ConcretizeNum(asJ(call["hi"]), 0))
	default:
		panic("harness: unknown refine call")
	}
}

func driveRefine(c *Ctx) error {
	return readLines(c.In, func(j J) error {
		cj := asL(j["cands"])
		for _, sq := range asL(j["seqs"]) {
			orig := Concretize(asJ(j["orig"]), 0)
			cands := concretizeArgs(cj, 0)
			c.Out.Emit(J{"ev": "rstart", "orig": Project(orig), "cands": projectArgs(cands), "incl": includes(orig, cands)})
			var b *cty.RefinementBuilder
			p, msg := guard(func() { b = orig.Refine() })
			if p {
				c.Out.Emit(J{"ev": "rcall", "call": J{"c": "Refine"}, "panic": true, "msg": trunc(msg)})
				continue
			}
			for _, cl := range asL(sq) {
				call := asJ(cl)
				ev := J{"ev": "rcall", "call": call}
				p, msg := guard(func() { applyRefineCall(b, call) })
				ev["panic"] = p
				if p {
					ev["msg"] = trunc(msg)
					c.Out.Emit(ev)
					break
				}
				var nv cty.Value
				p2, msg2 := guard(func() { nv = b.NewValue() })
				if p2 {
					ev["nvpanic"] = trunc(msg2)
				} else {
					ev["val"] = Project(nv)
					ev["incl"] = includes(nv, cands)
				}
				c.Out.Emit(ev)
			}
		}
		return nil
	})
}

// rangeof: what Value.Range() reports for ANY unmarked value (known, null, unknown, sets
// holding unknown members), through the public accessors, and Includes(candidate).
func init() { register("rangeof", driveRangeOf) }

func driveRangeOf(c *Ctx) error {
	return readLines(c.In, func(j J) error {
		cands := concretizeArgs(asL(j["cands"]), 0)
		for _, vj := range asL(j["vals"]) {
			v := Concretize(asJ(vj), 0)
			ev := J{"ev": "rangeof", "v": Project(v), "cands": projectArgs(cands)}
			p, msg := guard(func() {
				r := v.Range()
				ev["rng"] = ProjectRange(r, v.Type())
				ev["tc"] = ProjectType(r.TypeConstraint())
				ev["cbn"] = r.CouldBeNull()
			})
			if p {
				ev["panic"] = trunc(msg)
			}
			ev["incl"] = includes(v, cands)
			c.Out.Emit(ev)
		}
		return nil
	})
}
