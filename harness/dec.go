package main

// C17: decoder safety.  Token trees enumerated by TLC are turned into bytes (the
// encoder below can lie about length fields exactly as the tree says) and fed to
// the real decoders; every call runs under recover with its allocation measured.
// Byte-level mutations of valid encodings are produced here with the seeded RNG;
// for those only the outcome predicate applies (the bytes are not modelled).

import (
	"bytes"
	"encoding/binary"
	"math"
	"runtime"
	"strings"

	"github.com/zclconf/go-cty/cty"
	ctyjson "github.com/zclconf/go-cty/cty/json"
	"github.com/zclconf/go-cty/cty/msgpack"
)

func init() { register("dec", driveDec) }

func mpLen(b *bytes.Buffer, fix, c16, c32 byte, fixMax int, n int) {
	switch {
	case n >= 0 && n <= fixMax && fix != 0:
		b.WriteByte(fix | byte(n))
	case n >= 0 && n < 65536:
		b.WriteByte(c16)
		binary.Write(b, binary.BigEndian, uint16(n))
	default:
		b.WriteByte(c32)
		binary.Write(b, binary.BigEndian, uint32(n))
	}
}

func encTok(t J, b *bytes.Buffer) {
	switch asS(t["m"]) {
	case "nil":
		b.WriteByte(0xc0)
	case "bool":
		if asB(t["b"]) {
			b.WriteByte(0xc3)
		} else {
			b.WriteByte(0xc2)
		}
	case "int":
		i := int64(asI(t["i"]))
		switch {
		case i >= 0 && i < 128:
			b.WriteByte(byte(i))
		case i < 0 && i >= -32:
			b.WriteByte(byte(i))
		default:
			b.WriteByte(0xd3)
			binary.Write(b, binary.BigEndian, i)
		}
	case "float":
		q := asI(t["q"])
		f := float64(q) / 4
		if q == 999 {
			f = math.NaN()
		} else if q == 998 {
			f = math.Inf(1)
		}
		b.WriteByte(0xcb)
		binary.Write(b, binary.BigEndian, math.Float64bits(f))
	case "str", "bin":
		s := joinRunes(asL(t["s"]))
		if asS(t["m"]) == "str" {
			mpLen(b, 0xa0, 0xda, 0xdb, 31, len(s))
		} else {
			mpLen(b, 0, 0xc5, 0xc6, -1, len(s))
		}
		b.WriteString(s)
	case "arr":
		elems := asL(t["a"])
		n := asI(t["n"])
		if n < 0 {
			n = len(elems)
		}
		mpLen(b, 0x90, 0xdc, 0xdd, 15, n)
		for _, e := range elems {
			encTok(asJ(e), b)
		}
	case "map":
		pairs := asL(t["o"])
		n := asI(t["n"])
		if n < 0 {
			n = len(pairs)
		}
		mpLen(b, 0x80, 0xde, 0xdf, 15, n)
		for _, p := range pairs {
			encTok(asJ(asJ(p)["k"]), b)
			encTok(asJ(asJ(p)["v"]), b)
		}
	case "ext":
		blen := asI(t["blen"])
		writeExtHeader(b, byte(asI(t["code"])), blen)
		if blen <= 4096 {
			b.Write(make([]byte, blen))
		} // else: the declared body is missing (truncated input)
	case "unk":
		b.Write([]byte{0xd4, 0, 0})
	case "unkrf":
		var body bytes.Buffer
		pairs := asL(t["rf"])
		n := asI(t["n"])
		if n < 0 {
			n = len(pairs)
		}
		mpLen(&body, 0x80, 0xde, 0xdf, 15, n)
		for _, p := range pairs {
			encTok(asJ(asJ(p)["k"]), &body)
			encTok(asJ(asJ(p)["v"]), &body)
		}
		writeExtHeader(b, 0x0c, body.Len())
		b.Write(body.Bytes())
	default:
		panic("harness: unknown token " + asS(t["m"]))
	}
}

func writeExtHeader(b *bytes.Buffer, code byte, n int) {
	switch {
	case n == 1:
		b.WriteByte(0xd4)
	case n == 2:
		b.WriteByte(0xd5)
	case n == 4:
		b.WriteByte(0xd6)
	case n == 8:
		b.WriteByte(0xd7)
	case n == 16:
		b.WriteByte(0xd8)
	case n < 256:
		b.WriteByte(0xc7)
		b.WriteByte(byte(n))
	case n < 65536:
		b.WriteByte(0xc8)
		binary.Write(b, binary.BigEndian, uint16(n))
	default:
		b.WriteByte(0xc9)
		binary.Write(b, binary.BigEndian, uint32(n))
	}
	b.WriteByte(code)
}

// measure runs fn under recover and reports allocation in KiB.
func measure(fn func() J) (J, int) {
	var m0, m1 runtime.MemStats
	runtime.ReadMemStats(&m0)
	var out J
	p, msg := guard(func() { out = fn() })
	runtime.ReadMemStats(&m1)
	if p {
		out = failed("panic", trunc(msg))
	}
	kib := int((m1.TotalAlloc - m0.TotalAlloc) / 1024)
	if kib > 1<<30 {
		kib = 1 << 30
	}
	return out, kib
}

func valRes(v cty.Value, err error) J {
	if err != nil {
		return failed("error", trunc(err.Error()))
	}
	return okVal(v)
}

func typeResT(t cty.Type, err error) J {
	if err != nil {
		return failed("error", trunc(err.Error()))
	}
	var pt J
	p, _ := guard(func() { pt = ProjectType(t) })
	if p || t == cty.NilType {
		pt = J{"k": "?nil"}
	}
	return J{"ok": true, "t": pt}
}

func (c *Ctx) decEvent(dec string, in []byte, target *cty.Type, mustfail bool, src any) {
	ev := J{"ev": "dec", "dec": dec, "len": len(in), "mustfail": mustfail, "src": src}
	var out J
	var kib int
	switch dec {
	case "msgpack.Unmarshal":
		ev["target"] = ProjectType(*target)
		out, kib = measure(func() J { return valRes(msgpack.Unmarshal(in, *target)) })
	case "json.Unmarshal":
		ev["target"] = ProjectType(*target)
		out, kib = measure(func() J { return valRes(ctyjson.Unmarshal(in, *target)) })
	case "msgpack.ImpliedType":
		out, kib = measure(func() J { return typeResT(msgpack.ImpliedType(in)) })
	case "json.ImpliedType":
		out, kib = measure(func() J { return typeResT(ctyjson.ImpliedType(in)) })
	case "json.UnmarshalType":
		out, kib = measure(func() J { return typeResT(ctyjson.UnmarshalType(in)) })
	}
	ev["out"] = out
	ev["alloc"] = kib
	if len(in) <= 48 {
		ev["hex"] = hexOf(in)
	}
	c.Out.Emit(ev)
}

func hexOf(b []byte) string {
	const d = "0123456789abcdef"
	var sb strings.Builder
	for _, x := range b {
		sb.WriteByte(d[x>>4])
		sb.WriteByte(d[x&15])
	}
	return sb.String()
}

func (c *Ctx) mutate(in []byte) []byte {
	out := append([]byte{}, in...)
	n := 1 + c.Rng.Intn(4)
	for i := 0; i < n; i++ {
		if len(out) == 0 {
			out = append(out, byte(c.Rng.Intn(256)))
			continue
		}
		p := c.Rng.Intn(len(out))
		switch c.Rng.Intn(6) {
		case 0:
			out[p] ^= 1 << uint(c.Rng.Intn(8))
		case 1:
			out = append(out[:p], append([]byte{byte(c.Rng.Intn(256))}, out[p:]...)...)
		case 2:
			out = append(out[:p], out[p+1:]...)
		case 3:
			out = out[:p]
		case 4:
			out[p] = []byte{0xdd, 0xdf, 0xc9, 0xdb, 0xc6, 0x9f, 0x8f, '[', '{', '"', 0xff, 0xc1}[c.Rng.Intn(12)]
		case 5:
			q := c.Rng.Intn(len(out))
			if q > p {
				out = append(out[:p], append(append([]byte{}, out[p:q]...), out[p:]...)...)
			}
		}
	}
	return out
}

func driveDec(c *Ctx) error {
	nmut := 6
	if c.Tier == "thorough" {
		nmut = 40
	}
	return readLines(c.In, func(j J) error {
		switch asS(j["k"]) {
		case "mp":
			var b bytes.Buffer
			encTok(asJ(j["tok"]), &b)
			in := b.Bytes()
			mf := asL(j["mustfail"])
			for i, tj := range asL(j["targets"]) {
				ty := ConcretizeType(asJ(tj))
				c.decEvent("msgpack.Unmarshal", in, &ty, asB(mf[i]), j["tok"])
			}
			c.decEvent("msgpack.ImpliedType", in, nil, false, j["tok"])
		case "js":
			var sb strings.Builder
			renderDoc(asJ(j["doc"]), 0, &sb)
			in := []byte(sb.String())
			for _, tj := range asL(j["targets"]) {
				ty := ConcretizeType(asJ(tj))
				c.decEvent("json.Unmarshal", in, &ty, false, j["doc"])
			}
			c.decEvent("json.ImpliedType", in, nil, false, j["doc"])
		case "jt":
			var sb strings.Builder
			renderDoc(asJ(j["doc"]), 0, &sb)
			c.decEvent("json.UnmarshalType", []byte(sb.String()), nil, false, j["doc"])
		case "bytes":
			// valid encodings of TLC-generated values, mutated at byte level
			var tys []cty.Type
			for _, tj := range asL(j["tys"]) {
				tys = append(tys, ConcretizeType(asJ(tj)))
			}
			others := []cty.Type{cty.String, cty.List(cty.DynamicPseudoType), cty.Map(cty.Number), cty.DynamicPseudoType}
			for _, vj := range asL(j["vals"]) {
				v := Concretize(asJ(vj), 0)
				for _, ty := range tys {
					var mb, jb []byte
					guard(func() { mb, _ = msgpack.Marshal(v, ty) })
					guard(func() { jb, _ = ctyjson.Marshal(v, ty) })
					for k := 0; k < nmut; k++ {
						tt := ty
						if k%3 == 2 {
							tt = others[c.Rng.Intn(len(others))]
						}
						if mb != nil {
							m := c.mutate(mb)
							c.decEvent("msgpack.Unmarshal", m, &tt, false, "bytes")
							if k%4 == 0 {
								c.decEvent("msgpack.ImpliedType", m, nil, false, "bytes")
							}
						}
						if jb != nil {
							m := c.mutate(jb)
							c.decEvent("json.Unmarshal", m, &tt, false, "bytes")
							if k%4 == 0 {
								c.decEvent("json.ImpliedType", m, nil, false, "bytes")
								c.decEvent("json.UnmarshalType", m, nil, false, "bytes")
							}
						}
					}
				}
			}
			// raw random bytes
			for k := 0; k < nmut; k++ {
				raw := make([]byte, c.Rng.Intn(24))
				c.Rng.Read(raw)
				tt := others[c.Rng.Intn(len(others))]
				c.decEvent("msgpack.Unmarshal", raw, &tt, false, "random")
				c.decEvent("json.Unmarshal", raw, &tt, false, "random")
			}
		}
		return nil
	})
}
