package main

// C15: JSON codec.  Real bytes are tokenized with encoding/json.Decoder.Token (order and
// duplicate keys preserved) into the abstract documents of spec/JsonDoc.tla.

import (
	"bytes"
	"encoding/json"
	"fmt"
	"math/big"
	"strings"

	"github.com/zclconf/go-cty/cty"
	ctyjson "github.com/zclconf/go-cty/cty/json"
)

var prevJSONBytes []byte
var prevJSONDigest string

func init() { register("jsonc", driveJSON) }

func tokDoc(dec *json.Decoder) (J, error) {
	tok, err := dec.Token()
	if err != nil {
		return nil, err
	}
	switch t := tok.(type) {
	case nil:
		return J{"j": "null"}, nil
	case bool:
		return J{"j": "bool", "b": t}, nil
	case json.Number:
		f, _, err := big.ParseFloat(string(t), 10, 512, big.ToNearestEven)
		if err != nil {
			return nil, err
		}
		return J{"j": "num", "n": ProjectNum(f)}, nil
	case string:
		return J{"j": "str", "s": runes(t)}, nil
	case json.Delim:
		switch t {
		case '[':
			a := []any{}
			for dec.More() {
				d, err := tokDoc(dec)
				if err != nil {
					return nil, err
				}
				a = append(a, d)
			}
			if _, err := dec.Token(); err != nil {
				return nil, err
			}
			return J{"j": "arr", "a": a}, nil
		case '{':
			o := []any{}
			for dec.More() {
				kt, err := dec.Token()
				if err != nil {
					return nil, err
				}
				ks, ok := kt.(string)
				if !ok {
					return nil, fmt.Errorf("non-string key")
				}
				d, err := tokDoc(dec)
				if err != nil {
					return nil, err
				}
				o = append(o, J{"k": runes(ks), "v": d})
			}
			if _, err := dec.Token(); err != nil {
				return nil, err
			}
			return J{"j": "obj", "o": o}, nil
		}
	}
	return nil, fmt.Errorf("unexpected token %v", tok)
}

func bytesDoc(b []byte) (J, error) {
	dec := json.NewDecoder(bytes.NewReader(b))
	dec.UseNumber()
	d, err := tokDoc(dec)
	if err != nil {
		return nil, err
	}
	if dec.More() {
		return nil, fmt.Errorf("trailing data")
	}
	return d, nil
}

// render an abstract document as JSON text; "sp" selects among spellings
func renderDoc(d J, sp int, sb *strings.Builder) {
	switch asS(d["j"]) {
	case "null":
		sb.WriteString("null")
	case "bool":
		if asB(d["b"]) {
			sb.WriteString("true")
		} else {
			sb.WriteString("false")
		}
	case "num":
		v := ConcretizeNum(asJ(d["n"]), 0)
		f := v.AsBigFloat()
		txt := f.Text('f', -1)
		switch sp % 4 {
		case 1:
			if f.IsInt() {
				txt += ".0"
			}
		case 2:
			txt = f.Text('e', -1)
		case 3:
			if f.IsInt() && !strings.Contains(txt, "e") {
				txt = txt + "0e-1"
			}
		}
		sb.WriteString(txt)
	case "str":
		s := joinRunes(asL(d["s"]))
		b, _ := json.Marshal(s)
		if sp%2 == 1 {
			// escape every non-ASCII rune and spell it decomposed where it was composed
			var eb strings.Builder
			eb.WriteByte('"')
			for _, r := range s {
				if r < 0x80 && r >= 0x20 && r != '"' && r != '\\' {
					eb.WriteRune(r)
				} else if r < 0x10000 {
					fmt.Fprintf(&eb, "\\u%04x", r)
				} else {
					eb.WriteRune(r)
				}
			}
			eb.WriteByte('"')
			b = []byte(eb.String())
		}
		sb.Write(b)
	case "arr":
		sb.WriteByte('[')
		for i, e := range asL(d["a"]) {
			if i > 0 {
				sb.WriteByte(',')
			}
			if sp%2 == 1 {
				sb.WriteByte(' ')
			}
			renderDoc(asJ(e), sp, sb)
		}
		sb.WriteByte(']')
	case "obj":
		sb.WriteByte('{')
		o := asL(d["o"])
		idx := make([]int, len(o))
		for i := range o {
			idx[i] = i
			if sp%4 >= 2 {
				idx[i] = len(o) - 1 - i // reversed key order
			}
		}
		for n, i := range idx {
			if n > 0 {
				sb.WriteByte(',')
			}
			p := asJ(o[i])
			kb, _ := json.Marshal(joinRunes(asL(p["k"])))
			sb.Write(kb)
			sb.WriteByte(':')
			if sp%2 == 1 {
				sb.WriteString("\n ")
			}
			renderDoc(asJ(p["v"]), sp, sb)
		}
		sb.WriteByte('}')
	}
}

func driveJSON(c *Ctx) error {
	return readLines(c.In, func(j J) error {
		switch asS(j["k"]) {
		case "jm", "jx":
			var tys []cty.Type
			for _, tj := range asL(j["tys"]) {
				tys = append(tys, ConcretizeType(asJ(tj)))
			}
			for _, vj := range asL(j["vals"]) {
				for rep := 0; rep < 2; rep++ {
					v := Concretize(asJ(vj), rep*2)
					for _, ty := range tys {
						ev := J{"ev": asS(j["k"]), "v": Project(v), "ty": ProjectType(ty)}
						ev["ia"] = digestOf(ev["v"], ev["ty"])
						var b []byte
						var err error
						p, msg := guard(func() { b, err = ctyjson.Marshal(v, ty) })
						switch {
						case p:
							ev["m"] = failed("panic", trunc(msg))
						case err != nil:
							ev["m"] = failed("error", trunc(err.Error()))
						default:
							// the bytes returned by the previous Marshal call, as they were then and as they are now
							if prevJSONBytes != nil {
								ev["pb"], ev["pb2"] = prevJSONDigest, digestOf(string(prevJSONBytes))
							}
							prevJSONBytes, prevJSONDigest = b, digestOf(string(b))
							doc, derr := bytesDoc(b)
							m := J{"ok": true, "valid": json.Valid(b) && derr == nil, "text": trunc(string(b))}
							if derr == nil {
								m["doc"] = doc
							} else {
								m["doc"] = J{"j": "null"}
							}
							ev["m"] = m
							var back cty.Value
							var berr error
							bp, bmsg := guard(func() { back, berr = ctyjson.Unmarshal(b, ty) })
							ev["back"] = resOf(back, berr, bp, bmsg)
						}
						ev["ia2"] = digestOf(Project(v), ProjectType(ty))
						c.Out.Emit(ev)
					}
					if asS(j["k"]) == "jx" {
						break
					}
				}
			}
		case "jd":
			for _, dj := range asL(j["docs"]) {
				d := asJ(dj)
				for sp := 0; sp < 4; sp++ {
					var sb strings.Builder
					renderDoc(d, sp, &sb)
					b := []byte(sb.String())
					ev := J{"ev": "jd", "doc": d, "text": trunc(string(b)), "sp": sp}
					var ty cty.Type
					var err error
					p, msg := guard(func() { ty, err = ctyjson.ImpliedType(b) })
					switch {
					case p:
						ev["it"] = failed("panic", trunc(msg))
					case err != nil:
						ev["it"] = failed("error", trunc(err.Error()))
					default:
						ev["it"] = J{"ok": true, "t": ProjectType(ty)}
					}
					ev["um"] = J{"ok": false, "fail": "skipped"}
					ev["rm"] = J{"ok": false, "fail": "skipped"}
					if ev["it"].(J)["ok"] == true {
						var v cty.Value
						p, msg := guard(func() { v, err = ctyjson.Unmarshal(b, ty) })
						ev["um"] = resOf(v, err, p, msg)
						if !p && err == nil {
							var rb []byte
							p2, msg2 := guard(func() { rb, err = ctyjson.Marshal(v, ty) })
							switch {
							case p2:
								ev["rm"] = failed("panic", trunc(msg2))
							case err != nil:
								ev["rm"] = failed("error", trunc(err.Error()))
							default:
								rd, derr := bytesDoc(rb)
								if derr != nil {
									ev["rm"] = failed("error", "re-marshalled bytes are not JSON")
								} else {
									ev["rm"] = J{"ok": true, "doc": rd}
								}
							}
						}
					}
					// the same document through the encoding/json integration (SimpleJSONValue: implied type on the way in,
					// the value's own type on the way out)
					var sv ctyjson.SimpleJSONValue
					var serr error
					sp2, smsg := guard(func() { serr = json.Unmarshal(b, &sv) })
					switch {
					case sp2:
						ev["sj"] = failed("panic", trunc(smsg))
					case serr != nil:
						ev["sj"] = failed("error", trunc(serr.Error()))
					default:
						var sb2 []byte
						sp3, smsg3 := guard(func() { sb2, serr = json.Marshal(sv) })
						switch {
						case sp3:
							ev["sj"] = failed("panic", trunc(smsg3))
						case serr != nil:
							ev["sj"] = failed("error", trunc(serr.Error()))
						default:
							if rd, derr := bytesDoc(sb2); derr != nil {
								ev["sj"] = failed("error", "bytes are not JSON")
							} else {
								ev["sj"] = J{"ok": true, "doc": rd, "val": Project(sv.Value)}
							}
						}
					}
					c.Out.Emit(ev)
				}
			}
		}
		return nil
	})
}
