package main

import (
	"github.com/zclconf/go-cty/cty/function"
)

func init() { register("sigs", driveSigs) }

func projParam(p function.Parameter) J {
	return J{"ty": ProjectType(p.Type), "an": p.AllowNull, "au": p.AllowUnknown, "ad": p.AllowDynamicType, "am": p.AllowMarked}
}

// Signatures of every registered standard-library function, read from the real
// function values (so the TLC generators always see the code's own declarations).
func driveSigs(c *Ctx) error {
	for _, n := range stdlibNames() {
		f := stdlibFuncs[n]
		ps := []any{}
		for _, p := range f.Params() {
			ps = append(ps, projParam(p))
		}
		var vp any = J{"none": true}
		if v := f.VarParam(); v != nil {
			vp = projParam(*v)
		}
		c.Out.Emit(J{"name": n, "ps": ps, "var": vp})
	}
	return nil
}
