package main

// C10: builds function.Spec values from TLC-generated configurations with SPY callbacks
// that record the (projected) arguments they were given, then calls the real
// Function.Call / ReturnTypeForValues / ReturnType and records everything.

import (
	"errors"

	"github.com/zclconf/go-cty/cty"
	"github.com/zclconf/go-cty/cty/function"
)

func init() { register("fcall", driveFCall) }

func mkParam(p J) function.Parameter {
	return function.Parameter{
		Name:             "p",
		Type:             ConcretizeType(asJ(p["ty"])),
		AllowNull:        asB(p["an"]),
		AllowUnknown:     asB(p["au"]),
		AllowDynamicType: asB(p["ad"]),
		AllowMarked:      asB(p["am"]),
	}
}

func driveFCall(c *Ctx) error {
	return readLines(c.In, func(j J) error {
		sj := asJ(j["spec"])
		for _, aj := range asL(j["argss"]) {
			var cbs []any
			spec := &function.Spec{}
			for _, p := range asL(sj["ps"]) {
				spec.Params = append(spec.Params, mkParam(asJ(p)))
			}
			if v := asJ(sj["var"]); v["none"] == nil {
				vp := mkParam(v)
				spec.VarParam = &vp
			}
			tcb, icb := asS(sj["tcb"]), asS(sj["icb"])
			retTy := cty.String
			if tcb == "okDyn" {
				retTy = cty.DynamicPseudoType
			}
			spec.Type = func(args []cty.Value) (cty.Type, error) {
				cbs = append(cbs, J{"cb": "type", "args": projectArgs(args)})
				switch tcb {
				case "err":
					return cty.NilType, errors.New("type callback says no")
				case "panic":
					panic("type callback panics")
				}
				return retTy, nil
			}
			spec.Impl = func(args []cty.Value, rt cty.Type) (cty.Value, error) {
				cbs = append(cbs, J{"cb": "impl", "args": projectArgs(args), "ty": ProjectType(rt)})
				switch icb {
				case "err":
					return cty.NilVal, errors.New("impl says no")
				case "panic":
					panic("impl panics")
				case "nonconf":
					if tcb == "okDyn" {
						return cty.StringVal("r"), nil
					}
					return cty.NumberIntVal(1), nil
				case "unknown":
					return cty.UnknownVal(cty.String), nil
				}
				return cty.StringVal("r"), nil
			}
			if asB(sj["rr"]) {
				if k, _ := sj["rrk"].(string); k == "null" {
					spec.RefineResult = func(b *cty.RefinementBuilder) *cty.RefinementBuilder { return b.Null() }
				} else {
					spec.RefineResult = func(b *cty.RefinementBuilder) *cty.RefinementBuilder { return b.NotNull() }
				}
			}
			f := function.New(spec)
			call := f.Call
			switch w, _ := sj["wrap"].(string); w {
			case "redesc":
				n := len(spec.Params)
				if spec.VarParam != nil {
					n++
				}
				f = f.WithNewDescriptions("described again", make([]string, n))
				call = f.Call
			case "unpred":
				f = function.Unpredictable(f)
				call = f.Call
			case "proxy":
				px := f.Proxy()
				call = func(a []cty.Value) (cty.Value, error) { return px(a...) }
			}
			// the parameter descriptions handed out by the accessors are the caller's to change
			for i, p := range f.Params() {
				ps := f.Params()
				ps[i].AllowNull, ps[i].AllowUnknown, ps[i].AllowDynamicType, ps[i].AllowMarked = !p.AllowNull, !p.AllowUnknown, !p.AllowDynamicType, !p.AllowMarked
				ps[i].Type = cty.DynamicPseudoType
			}
			if vp := f.VarParam(); vp != nil {
				vp.AllowNull, vp.AllowUnknown, vp.AllowDynamicType, vp.AllowMarked = !vp.AllowNull, !vp.AllowUnknown, !vp.AllowDynamicType, !vp.AllowMarked
				vp.Type = cty.DynamicPseudoType
			}
			args := concretizeArgs(asL(aj), 0)
			ev := J{"ev": "fcall", "spec": sj, "args": projectArgs(args)}
			ev["ia"] = digestOf(ev["args"])
			// the call
			var v cty.Value
			var err error
			p, msg := guard(func() { v, err = call(args) })
			switch {
			case p:
				ev["out"] = J{"ok": false, "fail": "panic", "msg": trunc(msg)}
			case err != nil:
				o := J{"ok": false, "fail": "error", "msg": trunc(err.Error())}
				if ae, ok := err.(function.ArgError); ok {
					o["idx"] = ae.Index
				}
				if _, ok := err.(function.PanicError); ok {
					o["fail"] = "panicerror"
				}
				ev["out"] = o
			default:
				ev["out"] = okVal(v)
			}
			if cbs == nil {
				cbs = []any{}
			}
			ev["cbs"] = cbs
			// type prediction from values (callbacks of this phase are not part of the call's sequence)
			saved := cbs
			cbs = nil
			var ty cty.Type
			p, msg = guard(func() { ty, err = f.ReturnTypeForValues(args) })
			switch {
			case p:
				ev["rt"] = J{"ok": false, "fail": "panic", "msg": trunc(msg)}
			case err != nil:
				o := J{"ok": false, "fail": "error", "msg": trunc(err.Error())}
				if ae, ok := err.(function.ArgError); ok {
					o["idx"] = ae.Index
				}
				ev["rt"] = o
			default:
				ev["rt"] = J{"ok": true, "t": ProjectType(ty)}
			}
			cbs = saved
			ev["ia2"] = digestOf(projectArgs(args))
			c.Out.Emit(ev)
		}
		return nil
	})
}
