package main

// Inverse projection: abstract types and values (decoded JSON) to real cty
// types and values.  "rep" selects among physical representations of the same
// abstract value (number precision / constructor, -0, non-NFC input strings).

import (
	"strings"
	"fmt"
	"math/big"
	"sort"

	"github.com/zclconf/go-cty/cty"
	"github.com/zclconf/go-cty/cty/function/stdlib"
	"golang.org/x/text/unicode/norm"
)

func asJ(x any) J {
	if m, ok := x.(map[string]any); ok {
		return m
	}
	panic(fmt.Sprintf("expected object, got %T %v", x, x))
}
func asL(x any) []any {
	if x == nil {
		return nil
	}
	if l, ok := x.([]any); ok {
		return l
	}
	if m, ok := x.(map[string]any); ok && len(m) == 0 {
		return nil // TLC prints <<>> and [x \in {} |-> ..] alike
	}
	panic(fmt.Sprintf("expected array, got %T %v", x, x))
}
func asS(x any) string { return x.(string) }
func asI(x any) int {
	switch n := x.(type) {
	case float64:
		return int(n)
	case int:
		return n
	}
	panic(fmt.Sprintf("expected int, got %T %v", x, x))
}
func asB(x any) bool { return x.(bool) }

// Attribute names / map keys with an abstract (multi-letter) name in the specification.
var absAttrNames = map[string]string{"omega": "\u03a9", "eacute": "\u00e9", "ctl": "\x1f", "dq": "\"", "sp": "a b"}
var realAttrNames = map[string]string{}

func init() {
	for a, r := range absAttrNames {
		realAttrNames[r] = a
	}
}

// denorm gives a spelling of s that is NOT in normal form wherever one exists: canonical decomposition
// (combining marks, conjoining Hangul jamo) and singleton equivalents that carry no combining mark (OHM SIGN for omega).
func denorm(s string) string {
	return strings.ReplaceAll(norm.NFD.String(s), "\u03a9", "\u2126")
}

// realName gives the real spelling of an abstract attribute name / key.
func realName(n string) string {
	if r, ok := absAttrNames[n]; ok {
		return r
	}
	return n
}

// absName gives the specification's name for a real attribute name / key.
func absName(s string) string {
	if a, ok := realAttrNames[s]; ok {
		return a
	}
	return s
}

func ConcretizeType(t J) cty.Type {
	switch asS(t["k"]) {
	case "dynamic":
		return cty.DynamicPseudoType
	case "bool":
		return cty.Bool
	case "number":
		return cty.Number
	case "string":
		return cty.String
	case "list":
		return cty.List(ConcretizeType(asJ(t["e"])))
	case "set":
		return cty.Set(ConcretizeType(asJ(t["e"])))
	case "map":
		return cty.Map(ConcretizeType(asJ(t["e"])))
	case "tuple":
		es := []cty.Type{}
		for _, e := range asL(t["es"]) {
			es = append(es, ConcretizeType(asJ(e)))
		}
		return cty.Tuple(es)
	case "object":
		as := map[string]cty.Type{}
		if m, ok := t["as"].(map[string]any); ok {
			for n, a := range m {
				as[realName(n)] = ConcretizeType(asJ(a))
			}
		}
		opt := []string{}
		for _, o := range asL(t["opt"]) {
			opt = append(opt, realName(asS(o)))
		}
		if len(opt) > 0 {
			return cty.ObjectWithOptionalAttrs(as, opt)
		}
		return cty.Object(as)
	case "capsule":
		return capsules[asS(t["n"])]
	}
	panic(fmt.Sprintf("unknown type kind %v", t["k"]))
}

// number representations
const (
	RepDefault = iota // NumberIntVal for whole, NumberFloatVal otherwise
	RepFloat          // NumberFloatVal
	RepParsed         // ParseNumberVal of decimal text (512 bits)
	RepBig24          // NumberVal(big.Float at precision 24) when exact there
	RepSingleton      // cty.Zero etc. where they exist
	NumReps
)

func ConcretizeNum(n J, rep int) cty.Value {
	if i, ok := n["inf"]; ok {
		if asI(i) > 0 {
			if rep%2 == 1 {
				return cty.NumberFloatVal(1).Divide(cty.Zero) // computed infinity, not the singleton
			}
			return cty.PositiveInfinity
		}
		if rep%2 == 1 {
			return cty.NumberFloatVal(-1).Divide(cty.Zero)
		}
		return cty.NegativeInfinity
	}
	if l, ok := n["lm"]; ok {
		f := landmarkByName(asS(l))
		if f == nil {
			panic("unknown landmark " + asS(l))
		}
		// the same WHOLE number at several mantissa precisions, where it is exactly representable
		// (number equality is exact for whole numbers only)
		r := rep % 3
		if !f.IsInt() {
			r = 0
		}
		switch r {
		case 1:
			g := new(big.Float).SetPrec(f.MinPrec() + 11).Set(f)
			if g.Cmp(f) == 0 {
				return cty.NumberVal(g)
			}
		case 2:
			if x, acc := f.Float64(); acc == big.Exact {
				return cty.NumberFloatVal(x)
			}
		}
		return cty.NumberVal(new(big.Float).Copy(f))
	}
	if d, ok := n["dec"]; ok {
		r, ok2 := new(big.Rat).SetString(asS(d))
		if !ok2 {
			panic("bad dec " + asS(d))
		}
		// the same decimal at several precisions (these are in general different numbers); "rep" in the abstract value pins one
		if fr, ok := n["rep"]; ok {
			rep = asI(fr)
		}
		switch rep % 6 {
		case 4: // the float64 nearest to the decimal, carried at 512 bits (what arithmetic with a high-precision operand produces)
			g := new(big.Float).SetPrec(53).SetRat(r)
			return cty.NumberVal(new(big.Float).SetPrec(512).Set(g))
		case 5: // the 24-bit value carried at 64 bits
			g := new(big.Float).SetPrec(24).SetRat(r)
			return cty.NumberVal(new(big.Float).SetPrec(64).Set(g))
		}
		prec := []uint{512, 53, 64, 24}[rep%6%4]
		f := new(big.Float).SetPrec(prec).SetRat(r)
		return cty.NumberVal(f)
	}
	if d, ok := n["d"]; ok {
		r := big.NewRat(int64(asI(n["n"])), int64(asI(d)))
		return cty.NumberVal(new(big.Float).SetPrec(64).SetRat(r))
	}
	q := asI(n["q"])
	whole := q%4 == 0
	switch rep % NumReps {
	case RepFloat:
		if q == 0 && rep >= NumReps {
			return cty.NumberFloatVal(negZero())
		}
		return cty.NumberFloatVal(float64(q) / 4)
	case RepParsed:
		v, err := cty.ParseNumberVal(big.NewRat(int64(q), 4).FloatString(2))
		if err != nil {
			panic(err)
		}
		return v
	case RepBig24:
		f := new(big.Float).SetPrec(24).SetFloat64(float64(q) / 4)
		if f.Acc() == big.Exact {
			if g, _ := f.Float64(); g == float64(q)/4 {
				return cty.NumberVal(f)
			}
		}
		return cty.NumberFloatVal(float64(q) / 4)
	case RepSingleton:
		if q == 0 {
			return cty.Zero
		}
	}
	if whole {
		return cty.NumberIntVal(int64(q / 4))
	}
	return cty.NumberFloatVal(float64(q) / 4)
}

func negZero() float64 { z := 0.0; return -z }

func joinRunes(l []any) string {
	s := ""
	for _, r := range l {
		n := asS(r)
		if c, ok := abstractChars[n]; ok && len([]rune(n)) > 1 {
			s += c
		} else {
			s += n
		}
	}
	return s
}

func Concretize(a J, rep int) cty.Value {
	ty := ConcretizeType(asJ(a["ty"]))
	var v cty.Value
	switch asS(a["st"]) {
	case "null":
		v = cty.NullVal(ty)
	case "unk":
		v = ConcretizeUnknown(ty, a, rep)
	case "k":
		v = concretizeKnown(ty, a, rep)
	default:
		panic("bad st")
	}
	if mk := asL(a["mk"]); len(mk) > 0 {
		v = applyMarks(v, mk, rep+len(jsonKey(a)))
	}
	return v
}

// applyMarks attaches the marks through one of the library's own ways of marking a value; which
// one is a deterministic function of the abstract value and the representation index, so that
// every way is used across a run and a replayed event rebuilds the same physical value.
func applyMarks(v cty.Value, mk []any, variant int) cty.Value {
	switch variant % 4 {
	case 1:
		ms := make([]any, len(mk))
		for i, m := range mk {
			ms[i] = asS(m)
		}
		return v.WithMarks(cty.NewValueMarks(ms...))
	case 2:
		// an already marked receiver takes further marks from marked source values
		v = v.Mark(asS(mk[0]))
		srcs := []cty.Value{cty.True.Mark(asS(mk[0]))}
		for _, m := range mk[1:] {
			srcs = append(srcs, cty.StringVal("src").Mark(asS(m)))
		}
		return v.WithSameMarks(srcs...)
	case 3:
		ms := make([]any, len(mk))
		for i, m := range mk {
			ms[i] = asS(m)
		}
		return v.MarkWithPaths([]cty.PathValueMarks{{Path: cty.Path{}, Marks: cty.NewValueMarks(ms...)}})
	}
	for _, m := range mk {
		v = v.Mark(asS(m))
	}
	return v
}

func ConcretizeUnknown(ty cty.Type, a J, rep int) cty.Value {
	v := cty.UnknownVal(ty)
	rf, _ := a["rf"].(map[string]any)
	if ty == cty.DynamicPseudoType || rf == nil {
		return v
	}
	b := v.Refine()
	if rf["null"] == "F" {
		b = b.NotNull()
	}
	if lo, ok := rf["lo"]; ok {
		b = b.NumberRangeLowerBound(ConcretizeNum(asJ(lo), rep), asB(rf["loInc"]))
	}
	if hi, ok := rf["hi"]; ok {
		b = b.NumberRangeUpperBound(ConcretizeNum(asJ(hi), rep), asB(rf["hiInc"]))
	}
	if p, ok := rf["prefix"]; ok {
		b = b.StringPrefixFull(joinRunes(asL(p)))
	}
	if n, ok := rf["minLen"]; ok {
		b = b.CollectionLengthLowerBound(asI(n))
	}
	if n, ok := rf["maxLen"]; ok {
		b = b.CollectionLengthUpperBound(asI(n))
	}
	if rf["null"] == "T" {
		b = b.Null()
	}
	return b.NewValue()
}

func concretizeKnown(ty cty.Type, a J, rep int) cty.Value {
	switch {
	case ty == cty.Bool:
		return cty.BoolVal(asB(asJ(a["v"])["b"]))
	case ty == cty.Number:
		return ConcretizeNum(asJ(a["v"]), rep)
	case ty == cty.String:
		s := joinRunes(asL(asJ(a["v"])["s"]))
		if rep%2 == 1 {
			s = denorm(s) // cty normalizes on entry
		}
		return cty.StringVal(s)
	case ty.IsListType():
		elems := concretizeSeq(asL(asJ(a["v"])["l"]), rep)
		if len(elems) == 0 {
			return cty.ListValEmpty(ty.ElementType())
		}
		return cty.ListVal(elems)
	case ty.IsSetType():
		elems := concretizeSeq(asL(asJ(a["v"])["l"]), rep)
		if len(elems) == 0 {
			return cty.SetValEmpty(ty.ElementType())
		}
		return cty.SetVal(elems)
	case ty.IsTupleType():
		return cty.TupleVal(concretizeSeq(asL(asJ(a["v"])["l"]), rep))
	case ty.IsMapType():
		m := concretizeMap(asJ(a["v"])["m"], rep)
		if len(m) == 0 {
			return cty.MapValEmpty(ty.ElementType())
		}
		return cty.MapVal(m)
	case ty.IsObjectType():
		return cty.ObjectVal(concretizeMap(asJ(a["v"])["m"], rep))
	case ty.IsCapsuleType():
		if ty == capsules["bytes"] {
			return stdlib.BytesVal([]byte(asS(asJ(a["v"])["c"])))
		}
		if ty == capsules["c1"] {
			n := len(asS(asJ(a["v"])["c"]))
			return cty.CapsuleVal(ty, &n)
		}
		s := asS(asJ(a["v"])["c"])
		return cty.CapsuleVal(ty, &s)
	}
	panic("cannot concretize known value of type " + ty.GoString())
}

func concretizeSeq(l []any, rep int) []cty.Value {
	out := make([]cty.Value, 0, len(l))
	for _, e := range l {
		out = append(out, Concretize(asJ(e), rep))
	}
	return out
}

func concretizeMap(x any, rep int) map[string]cty.Value {
	out := map[string]cty.Value{}
	m, ok := x.(map[string]any)
	if !ok {
		return out
	}
	keys := make([]string, 0, len(m))
	for k := range m {
		keys = append(keys, k)
	}
	sort.Strings(keys)
	for _, k := range keys {
		kk := realName(k)
		if rep%2 == 1 {
			kk = denorm(kk)
		}
		out[kk] = Concretize(asJ(m[k]), rep)
	}
	return out
}
