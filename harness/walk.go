package main

// C19: walk / transform / path application / path-indexed marks on TLC-generated values.

import (
	"github.com/zclconf/go-cty/cty"
)

func init() { register("walk", driveWalk) }

func ProjectPath(p cty.Path) []any {
	out := []any{}
	for _, st := range p {
		switch s := st.(type) {
		case cty.GetAttrStep:
			out = append(out, J{"s": "attr", "n": absName(s.Name)})
		case cty.IndexStep:
			out = append(out, J{"s": "idx", "key": Project(s.Key)})
		default:
			out = append(out, J{"s": "?"})
		}
	}
	return out
}

func ConcretizePath(l []any) cty.Path {
	var p cty.Path
	for _, sj := range l {
		s := asJ(sj)
		if asS(s["s"]) == "attr" {
			p = p.GetAttr(realName(asS(s["n"])))
		} else {
			p = p.Index(Concretize(asJ(s["key"]), 0))
		}
	}
	return p
}

func resOf(v cty.Value, err error, p bool, msg string) J {
	switch {
	case p:
		return failed("panic", trunc(msg))
	case err != nil:
		return failed("error", trunc(err.Error()))
	}
	return okVal(v)
}

func driveWalk(c *Ctx) error {
	return readLines(c.In, func(j J) error {
		paths := asL(j["paths"])
		for vi, vj := range asL(j["vs"]) {
			root := Concretize(asJ(vj), 0)
			ev := J{"ev": "walk", "root": Project(root)}
			ev["ia"] = digestOf(ev["root"])
			// Walk: log path (copied, as documented), member, and Path.Apply(root)
			visits := []any{}
			p, msg := guard(func() {
				cty.Walk(root, func(pa cty.Path, v cty.Value) (bool, error) {
					pc := pa.Copy()
					var av cty.Value
					var aerr error
					ap, amsg := guard(func() { av, aerr = pc.Apply(root) })
					visits = append(visits, J{"p": ProjectPath(pc), "v": Project(v), "ap": resOf(av, aerr, ap, amsg)})
					return true, nil
				})
			})
			if p {
				ev["walkpanic"] = trunc(msg)
			}
			ev["visits"] = visits
			// identity transform
			tv := []any{}
			var tid cty.Value
			var terr error
			p, msg = guard(func() {
				tid, terr = cty.Transform(root, func(pa cty.Path, v cty.Value) (cty.Value, error) {
					tv = append(tv, J{"p": ProjectPath(pa.Copy()), "v": Project(v)})
					return v, nil
				})
			})
			ev["tvisits"] = tv
			ev["tid"] = resOf(tid, terr, p, msg)
			// unmark with paths, re-mark by path
			um := J{"ok": true}
			p, msg = guard(func() {
				uv, pvm := root.UnmarkDeepWithPaths()
				um["v"] = Project(uv)
				l := []any{}
				for _, e := range pvm {
					l = append(l, J{"p": ProjectPath(e.Path), "m": markNames(e.Marks)})
				}
				um["pvm"] = l
				um["re"] = Project(uv.MarkWithPaths(pvm))
				// the same list of paths used a second time, and the list itself afterwards
				um["re2"] = Project(uv.MarkWithPaths(pvm))
				l2 := []any{}
				for _, e := range pvm {
					l2 = append(l2, J{"p": ProjectPath(e.Path), "m": markNames(e.Marks)})
				}
				um["pvm2"] = l2
				// the list in the opposite order (the order of the entries carries no meaning), used twice
				rev := make([]cty.PathValueMarks, len(pvm))
				for i, e := range pvm {
					rev[len(pvm)-1-i] = e
				}
				um["re3"] = Project(uv.MarkWithPaths(rev))
				um["re4"] = Project(uv.MarkWithPaths(rev))
				l3 := []any{}
				for _, e := range rev {
					l3 = append(l3, J{"p": ProjectPath(e.Path), "m": markNames(e.Marks)})
				}
				um["rev2"] = l3
			})
			if p {
				um = J{"ok": false, "msg": trunc(msg)}
			}
			ev["um"] = um
			ev["ia2"] = digestOf(Project(root)) // the walked value re-read after all traversals
			c.Out.Emit(ev)
			// path application: valid and invalid paths (only on the base value and first variants to bound the volume)
			if vi < 3 {
				for _, pj := range paths {
					pa := ConcretizePath(asL(pj))
					var av cty.Value
					var aerr error
					ap, amsg := guard(func() { av, aerr = pa.Apply(root) })
					c.Out.Emit(J{"ev": "apply", "root": Project(root), "p": ProjectPath(pa), "r": resOf(av, aerr, ap, amsg)})
				}
			}
		}
		// replacement of one member by a transform callback
		base := Concretize(asJ(j["base"]), 0)
		for _, rj := range asL(j["repls"]) {
			r := asJ(rj)
			target := ConcretizePath(asL(r["p"]))
			repl := Concretize(asJ(r["r"]), 0)
			var res cty.Value
			var rerr error
			p, msg := guard(func() {
				res, rerr = cty.Transform(base, func(pa cty.Path, v cty.Value) (cty.Value, error) {
					if pa.Equals(target) {
						return repl, nil
					}
					return v, nil
				})
			})
			c.Out.Emit(J{"ev": "repl", "root": Project(base), "p": ProjectPath(target), "r": Project(repl), "res": resOf(res, rerr, p, msg)})
		}
		return nil
	})
}
