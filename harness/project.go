package main

// Projection of real cty types and values onto the abstract universe of
// spec/Universe.tla, and nothing else: no expected results are computed here.

import (
	"fmt"
	"math"
	"math/big"
	"reflect"
	"sort"

	"github.com/zclconf/go-cty/cty"
	"github.com/zclconf/go-cty/cty/function/stdlib"
	"golang.org/x/text/unicode/norm"
)

type J = map[string]any

// capsule registry: abstract capsule names to real capsule types
var capsules = map[string]cty.Type{
	"c1": cty.Capsule("c1", reflect.TypeOf(0)),
	"c2": cty.Capsule("c2", reflect.TypeOf("")),
	// a second capsule type with the same name and the same native type as c1: a distinct type
	"c1x": cty.Capsule("c1", reflect.TypeOf(0)),
	// the standard library's byte-buffer capsule type
	"bytes": stdlib.Bytes,
}

func capsuleName(t cty.Type) string {
	for n, c := range capsules {
		if c == t {
			return n
		}
	}
	return "c?" + t.FriendlyName()
}

func ProjectType(t cty.Type) J {
	switch {
	case t == cty.DynamicPseudoType:
		return J{"k": "dynamic"}
	case t == cty.Bool:
		return J{"k": "bool"}
	case t == cty.Number:
		return J{"k": "number"}
	case t == cty.String:
		return J{"k": "string"}
	case t.IsListType():
		return J{"k": "list", "e": ProjectType(t.ElementType())}
	case t.IsSetType():
		return J{"k": "set", "e": ProjectType(t.ElementType())}
	case t.IsMapType():
		return J{"k": "map", "e": ProjectType(t.ElementType())}
	case t.IsTupleType():
		es := []any{}
		for _, e := range t.TupleElementTypes() {
			es = append(es, ProjectType(e))
		}
		return J{"k": "tuple", "es": es}
	case t.IsObjectType():
		as := J{}
		for n, a := range t.AttributeTypes() {
			as[absName(n)] = ProjectType(a)
		}
		opt := []string{}
		for n := range t.OptionalAttributes() {
			opt = append(opt, absName(n))
		}
		sort.Strings(opt)
		o := []any{}
		for _, n := range opt {
			o = append(o, n)
		}
		return J{"k": "object", "as": as, "opt": o}
	case t.IsCapsuleType():
		return J{"k": "capsule", "n": capsuleName(t)}
	}
	return J{"k": "?" + t.GoString()}
}

// ---- numbers

const qMax = 1 << 16 // |q| <= 65536, i.e. |value| <= 16384 < 32767

type landmark struct {
	name string
	f    *big.Float
}

var landmarks []landmark

func mustParse(s string) *big.Float {
	f, _, err := big.ParseFloat(s, 10, 512, big.ToNearestEven)
	if err != nil {
		panic(err)
	}
	return f
}

func pow2(n int, delta string) *big.Float {
	r := new(big.Int).Lsh(big.NewInt(1), uint(n))
	f := new(big.Float).SetPrec(2048).SetInt(r)
	if delta != "" {
		d, _, _ := big.ParseFloat(delta, 10, 2048, big.ToNearestEven)
		f.Add(f, d)
	}
	return f
}

func neg(f *big.Float) *big.Float { return new(big.Float).Neg(f) }

func init() {
	add := func(n string, f *big.Float) { landmarks = append(landmarks, landmark{n, f}) }
	add("tenth", mustParse("0.1"))
	add("mtenth", mustParse("-0.1"))
	third := new(big.Float).SetPrec(512).Quo(big.NewFloat(1).SetPrec(512), big.NewFloat(3).SetPrec(512))
	add("third", third)
	// numbers that need more than 53 bits: just below a whole number (ordering proxies in Universe.tla)
	add("almost1", mustParse("0.99999999999999999999"))
	add("almost3", mustParse("2.99999999999999999999"))
	add("malmost1", mustParse("-0.99999999999999999999"))
	add("malmost3", mustParse("-2.99999999999999999999"))
	add("i16max", pow2(15, "-1"))
	add("i16maxp", pow2(15, ""))
	add("u16max", pow2(16, "-1"))
	add("u16maxp", pow2(16, ""))
	add("i16min", neg(pow2(15, "")))
	add("i16minm", neg(pow2(15, "1")))
	add("i32max", pow2(31, "-1"))
	add("i32maxp", pow2(31, ""))
	add("u32max", pow2(32, "-1"))
	add("u32maxh", pow2(32, "-0.5"))
	add("u32maxp", pow2(32, ""))
	add("f64int", pow2(53, ""))
	add("f64intp", pow2(53, "1"))
	add("i64max", pow2(63, "-1"))
	add("i64maxp", pow2(63, ""))
	add("u64max", pow2(64, "-1"))
	add("u64maxp", pow2(64, ""))
	add("u64maxpp", pow2(64, "1"))
	add("e30", new(big.Float).SetPrec(512).SetInt(new(big.Int).Exp(big.NewInt(10), big.NewInt(30), nil)))
	add("f32max", new(big.Float).SetFloat64(math.MaxFloat32))
	add("f32maxp", pow2(128, ""))
	add("e300", new(big.Float).SetPrec(1100).SetInt(new(big.Int).Exp(big.NewInt(10), big.NewInt(300), nil)))
	add("f64max", new(big.Float).SetFloat64(math.MaxFloat64))
	add("f64maxp", pow2(1024, ""))
	add("i32min", neg(pow2(31, "")))
	add("i32minm", neg(pow2(31, "1")))
	add("i64min", neg(pow2(63, "")))
	add("i64minm", neg(pow2(63, "1")))
	add("mf32max", new(big.Float).SetFloat64(-math.MaxFloat32))
	add("mf32maxp", neg(pow2(128, "")))
	add("mf64max", new(big.Float).SetFloat64(-math.MaxFloat64))
	add("mf64maxp", neg(pow2(1024, "")))
}

func landmarkByName(n string) *big.Float {
	for _, l := range landmarks {
		if l.name == n {
			return l.f
		}
	}
	return nil
}

// ProjectNum maps a big.Float to its canonical abstract number.
func ProjectNum(f *big.Float) J {
	if f.IsInf() {
		if f.Sign() > 0 {
			return J{"inf": 1}
		}
		return J{"inf": -1}
	}
	q := new(big.Float).SetPrec(f.Prec() + 8).Mul(f, big.NewFloat(4))
	if q.IsInt() {
		i, acc := q.Int64()
		if acc == big.Exact && i >= -qMax && i <= qMax {
			return J{"q": int(i)}
		}
	}
	for _, l := range landmarks {
		if l.f.Cmp(f) == 0 {
			return J{"lm": l.name}
		}
	}
	r, _ := f.Rat(nil)
	if r.Denom().IsInt64() && r.Num().IsInt64() {
		n, d := r.Num().Int64(), r.Denom().Int64()
		if n >= -4096 && n <= 4096 && d <= 4096 {
			return J{"n": int(n), "d": int(d)}
		}
	}
	d := J{"dec": r.RatString()}
	// flags the specification cannot derive from the text: whole number, exactly a float64
	if f.IsInt() {
		d["w"] = true
	}
	if _, acc := f.Float64(); acc == big.Exact {
		d["f"] = true
	}
	return d
}

// runes lists the code points of s; code points that have a multi-letter abstract
// name in the specification's alphabet (acute, LF, CR, ...) are reported by that name.
func runes(s string) []any {
	out := []any{}
	for _, r := range s {
		if n, ok := abstractNames[string(r)]; ok {
			out = append(out, n)
		} else {
			out = append(out, string(r))
		}
	}
	return out
}

func markNames(m cty.ValueMarks) []any {
	ns := []string{}
	for k := range m {
		ns = append(ns, fmt.Sprint(k))
	}
	sort.Strings(ns)
	out := []any{}
	for _, n := range ns {
		out = append(out, n)
	}
	return out
}

// Project maps a value to its abstract form using public accessors only.
// Any accessor panic is recorded in the "bad" field (judged by the spec).
func Project(v cty.Value) (out J) {
	defer func() {
		if r := recover(); r != nil {
			out = J{"ty": J{"k": "?"}, "st": "bad", "mk": []any{}, "bad": fmt.Sprint(r)}
		}
	}()
	return project(v)
}

// Inspect, when set, adds the internal view obtained through the verif hook
// (cty.VerifInspect) to every projected node: Go kind of the payload, marker
// nesting depth, refinement struct kind, element type recorded in a set's rules.
var Inspect = false

func project(v cty.Value) J { return projectPublic(v) }

// internalView flattens the hook's view of v (pre-order) next to the public type and
// state of each node, for the result records of C06.
func internalView(v cty.Value) []any {
	out := []any{}
	var rec func(v cty.Value, n cty.VerifNode)
	rec = func(v cty.Value, n cty.VerifNode) {
		uv, _ := v.Unmark()
		st := "k"
		if !uv.IsKnown() {
			st = "unk"
		} else if uv.IsNull() {
			st = "null"
		}
		e := J{"gk": n.GoKind, "md": n.MarkDepth, "rk": n.RefKind, "ty": ProjectType(uv.Type()), "st": st}
		if n.SetElemType != nil {
			e["sety"] = ProjectType(*n.SetElemType)
		}
		out = append(out, e)
		if st != "k" || !uv.CanIterateElements() {
			return
		}
		i := 0
		for it := uv.ElementIterator(); it.Next(); i++ {
			_, ev := it.Element()
			if i < len(n.Children) {
				if uv.Type().IsSetType() {
					// the hook lists set members in the same iteration order
					rec(ev, n.Children[i])
				} else {
					rec(ev, n.Children[i])
				}
			} else {
				out = append(out, J{"gk": "missing", "md": 0, "rk": "", "ty": ProjectType(ev.Type()), "st": "k"})
			}
		}
		if i != len(n.Children) {
			out = append(out, J{"gk": "extra-children", "md": 0, "rk": "", "ty": ProjectType(uv.Type()), "st": "k"})
		}
	}
	guard(func() { rec(v, cty.VerifInspect(v)) })
	return out
}

func projectPublic(v cty.Value) J {
	uv, marks := v.Unmark()
	ty := uv.Type()
	out := J{"ty": ProjectType(ty), "mk": markNames(marks)}
	if !uv.IsKnown() {
		out["st"] = "unk"
		out["rf"] = ProjectRange(uv.Range(), ty)
		return out
	}
	if uv.IsNull() {
		out["st"] = "null"
		return out
	}
	out["st"] = "k"
	switch {
	case ty == cty.Bool:
		out["v"] = J{"b": uv.True()}
	case ty == cty.Number:
		out["v"] = ProjectNum(uv.AsBigFloat())
	case ty == cty.String:
		s := uv.AsString()
		out["v"] = J{"s": runes(s)}
		if !norm.NFC.IsNormalString(s) {
			out["bad"] = "string not NFC-normalized"
		}
	case ty.IsListType() || ty.IsTupleType() || ty.IsSetType():
		elems := []any{}
		n := 0
		for it := uv.ElementIterator(); it.Next(); {
			_, ev := it.Element()
			elems = append(elems, project(ev))
			n++
		}
		out["v"] = J{"l": elems}
		if l := uv.LengthInt(); l != n {
			out["bad"] = fmt.Sprintf("LengthInt %d but iterator yields %d", l, n)
		}
	case ty.IsMapType() || ty.IsObjectType():
		m := J{}
		nfc := true
		for it := uv.ElementIterator(); it.Next(); {
			kv, ev := it.Element()
			k := kv.AsString()
			if !norm.NFC.IsNormalString(k) {
				nfc = false
			}
			if _, dup := m[absName(k)]; dup {
				out["bad"] = "duplicate key " + k
			}
			m[absName(k)] = project(ev)
		}
		if ty.IsObjectType() {
			// every declared attribute must be readable
			for n := range ty.AttributeTypes() {
				if _, ok := m[absName(n)]; !ok {
					m[absName(n)] = project(uv.GetAttr(n))
				}
			}
		}
		out["v"] = J{"m": m}
		if !nfc {
			out["bad"] = "key or attribute name not NFC-normalized"
		}
	case ty.IsCapsuleType():
		if bp, ok := uv.EncapsulatedValue().(*[]byte); ok {
			out["v"] = J{"c": string(*bp)}
		} else {
			out["v"] = J{"c": fmt.Sprintf("%v", reflect.ValueOf(uv.EncapsulatedValue()).Elem().Interface())}
		}
	default:
		out["bad"] = "known value of type " + ty.GoString()
	}
	return out
}

// ProjectRange reports a ValueRange through its public accessors.  Absent
// keys mean "no constraint"; the inclusiveness flag is reported only for
// finite bounds (the API calls it meaningless otherwise).
func ProjectRange(r cty.ValueRange, ty cty.Type) J {
	rf := J{}
	if r.DefinitelyNotNull() {
		rf["null"] = "F"
	} else {
		rf["null"] = "U"
	}
	switch {
	case ty == cty.Number:
		lo, loInc := r.NumberLowerBound()
		if lo.IsKnown() && !lo.IsNull() && !lo.AsBigFloat().IsInf() {
			rf["lo"] = ProjectNum(lo.AsBigFloat())
			rf["loInc"] = loInc
		} else if lo.IsKnown() && !lo.IsNull() && lo.AsBigFloat().Sign() > 0 {
			rf["lo"] = J{"inf": 1}
			rf["loInc"] = loInc
		}
		hi, hiInc := r.NumberUpperBound()
		if hi.IsKnown() && !hi.IsNull() && !hi.AsBigFloat().IsInf() {
			rf["hi"] = ProjectNum(hi.AsBigFloat())
			rf["hiInc"] = hiInc
		} else if hi.IsKnown() && !hi.IsNull() && hi.AsBigFloat().Sign() < 0 {
			rf["hi"] = J{"inf": -1}
			rf["hiInc"] = hiInc
		}
	case ty == cty.String:
		if p := r.StringPrefix(); p != "" {
			rf["prefix"] = runes(p)
		}
	case ty.IsCollectionType():
		if lo := r.LengthLowerBound(); lo != 0 {
			rf["minLen"] = clampLen(lo)
		}
		if hi := r.LengthUpperBound(); hi != math.MaxInt {
			rf["maxLen"] = clampLen(hi)
		}
	}
	return rf
}

func clampLen(n int) int {
	if n > 999999999 {
		return 999999999
	}
	return n
}

func okVal(v cty.Value) J {
	r := J{"ok": true, "val": Project(v)}
	if Inspect {
		r["in"] = internalView(v)
	}
	return r
}
func failed(kind string, msg string) J { return J{"ok": false, "fail": kind, "msg": msg} }
