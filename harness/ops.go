package main

// Generic vector driver: executes TLC-generated vectors against the real API.
//
//  {"k":"pair","api":A,"x":X,"a":[V..],"b":[V..]}   two runs (e.g. concrete / weakened)
//  {"k":"mark","api":A,"x":X,"a":[V..]}             marked run / run with all marks stripped
//  {"k":"call","api":A,"x":X,"a":[V..]}             one call, under every physical representation
//
// Events carry the PROJECTED inputs actually used, so that the trace spec judges
// what really ran.

import (
	"math/big"
	"crypto/sha1"
	"encoding/hex"
	"encoding/json"
	"sort"

	"github.com/zclconf/go-cty/cty"
	"github.com/zclconf/go-cty/cty/function"
)

func init() {
	register("ops", driveOps)
}

func stripMarksJ(a any) any {
	switch t := a.(type) {
	case map[string]any:
		out := J{}
		for k, v := range t {
			if k == "mk" {
				out[k] = []any{}
			} else {
				out[k] = stripMarksJ(v)
			}
		}
		return out
	case []any:
		out := make([]any, len(t))
		for i, v := range t {
			out[i] = stripMarksJ(v)
		}
		return out
	}
	return a
}

func digestOf(xs ...any) string {
	h := sha1.New()
	for _, x := range xs {
		b, _ := json.Marshal(x)
		h.Write(b)
		h.Write([]byte{0})
	}
	return hex.EncodeToString(h.Sum(nil))[:20]
}

func jsonKey(x any) string {
	b, _ := json.Marshal(x)
	return string(b)
}

func driveOps(c *Ctx) error {
	reps := 4
	if c.Tier == "thorough" {
		reps = 10
	}
	emitPair := func(api string, x J, rel any, aj, bj []any, am bool) {
		a := concretizeArgs(aj, 0)
		b := concretizeArgs(bj, 0)
		pa, pb := projectArgs(a), projectArgs(b)
		ev := J{"ev": "pair", "rel": rel, "api": api, "x": x,
			"a": pa, "b": pb,
			"ra": run(api, a, x), "rb": run(api, b, x)}
		// the operands re-read after the calls (digests of the full projections before / after;
		// the trace spec compares them: an operand must report the same afterwards)
		pa2, pb2 := projectArgs(a), projectArgs(b)
		ev["ia"], ev["ia2"] = digestOf(pa, pb), digestOf(pa2, pb2)
		if rel == "unmark" {
			ev["a2"] = pa2
		}
		if rel == "weak" && digestOf(any(bj)) != digestOf(any(pb)) {
			ev["bq"] = bj // the weakened operands as requested, where the library built something else from the same statements
		}
		if rel == "weak" {
			// purity of the weakened run: distinct outcomes over repeated identical calls
			seen := map[string]bool{}
			rbs := []any{}
			for i := 0; i < 6; i++ {
				r := run(api, b, x)
				if k := jsonKey(r); !seen[k] {
					seen[k] = true
					rbs = append(rbs, r)
				}
			}
			sort.Slice(rbs, func(i, k int) bool { return jsonKey(rbs[i]) < jsonKey(rbs[k]) })
			ev["rbs"] = rbs
		}
		if am && len(api) > 3 && api[:3] == "fn:" {
			ev["am"] = allowMarked(api[3:], x, len(a))
		}
		if p, ok := c.Args["prop"]; ok {
			ev["prop"] = p
		}
		c.Out.Emit(ev)
	}
	emitCall := func(api string, x J, aj []any) {
		a0 := concretizeArgs(aj, 0)
		// rs: distinct outcomes of repeating the call on the very same operand values;
		// rr: distinct outcomes across physical representations of equal operands
		collect := func(n int, mk func(i int) []cty.Value) []any {
			seen := map[string]bool{}
			out := []any{}
			for i := 0; i < n; i++ {
				r := run(api, mk(i), x)
				key := jsonKey(r)
				if !seen[key] {
					seen[key] = true
					out = append(out, r)
				}
			}
			sort.Slice(out, func(i, k int) bool { return jsonKey(out[i]) < jsonKey(out[k]) })
			return out
		}
		pa0 := projectArgs(a0) // the operands as they report before any call is made on them
		ia := digestOf(pa0)
		rs := collect(reps*2, func(int) []cty.Value { return a0 })
		// (representation 6 is the float representation with a NEGATIVE zero: always included)
		repIdx := func(i int) int {
			if i == reps {
				return 6
			}
			return i
		}
		rr := collect(reps+1, func(i int) []cty.Value { return concretizeArgs(aj, repIdx(i)) })
		// mixed representations: every operand in a different one
		rm := collect(reps, func(i int) []cty.Value {
			out := make([]cty.Value, len(aj))
			for k := range aj {
				out[k] = Concretize(asJ(aj[k]), i+k+1)
			}
			return out
		})
		ev := J{"ev": "call", "api": api, "x": x, "a": pa0, "r": run(api, a0, x), "rs": rs, "rr": rr, "rm": rm}
		ev["ia"], ev["ia2"] = ia, digestOf(projectArgs(a0))
		// per representation: the largest mantissa precision among number operands, and the outcome
		allNum := len(a0) > 0
		for _, v := range a0 {
			if !(v.Type() == cty.Number && v.IsKnown() && !v.IsNull() && !v.IsMarked()) {
				allNum = false
			}
		}
		if allNum {
			rp := []any{}
			for i := 0; i <= reps; i++ {
				ai := concretizeArgs(aj, repIdx(i))
				mp := 0
				for _, v := range ai {
					if p := int(v.AsBigFloat().Prec()); p > mp {
						mp = p
					}
				}
				rp = append(rp, J{"mp": mp, "r": run(api, ai, x)})
			}
			ev["rp"] = rp
		}
		if api == "Modulo" && allNum && len(a0) == 2 {
			// relations between operands and remainder as math/big sees them, under every pairing of representations
			// (the trace spec states the laws: the remainder is smaller than the divisor, has the sign of the dividend,
			// and is the dividend itself when that is already smaller than the divisor)
			seen := map[string]bool{}
			mq := []any{}
			for i := 0; i < 6; i++ {
				for k := 0; k < 6; k++ {
					x, y := Concretize(asJ(aj[0]), i), Concretize(asJ(aj[1]), k)
					fx, fy := x.AsBigFloat(), y.AsBigFloat()
					if fx.IsInf() || fy.IsInf() || fy.Sign() == 0 {
						continue
					}
					var r cty.Value
					p, _ := guard(func() { r = x.Modulo(y) })
					e := J{"ok": !p, "ca": new(big.Float).Abs(fx).Cmp(new(big.Float).Abs(fy)), "sa": fx.Sign()}
					if !p && r.IsKnown() && !r.IsNull() && r.Type() == cty.Number {
						fr := r.AsBigFloat()
						e["sr"] = fr.Sign()
						e["rltb"] = new(big.Float).Abs(fr).Cmp(new(big.Float).Abs(fy)) < 0
						e["rsa"] = fr.Cmp(fx) == 0
					}
					if key := jsonKey(e); !seen[key] {
						seen[key] = true
						mq = append(mq, e)
					}
				}
			}
			ev["mq"] = mq
		}
		if len(api) > 3 && api[:3] == "fn:" {
			ev["fn"] = api[3:]
			if f, ok := lookupFunc(api[3:], x); ok {
				tys := make([]cty.Type, len(a0))
				for i, v := range a0 {
					tys[i] = v.Type()
				}
				ev["rt"] = typeRes(func() (cty.Type, error) { return f.ReturnType(tys) })
				ev["rtv"] = typeRes(func() (cty.Type, error) { return f.ReturnTypeForValues(a0) })
			}
		}
		c.Out.Emit(ev)
	}
	return readLines(c.In, func(j J) error {
		api := asS(j["api"])
		xs := asL(j["xs"])
		if len(xs) == 0 {
			xs = []any{xOf(j)}
		}
		for _, xx := range xs {
			x := asJ(xx)
			switch asS(j["k"]) {
			case "weak":
				for _, v := range asL(j["vs"]) {
					emitPair(api, x, "weak", asL(j["a"]), asL(v), false)
				}
			case "mark":
				for _, v := range asL(j["vs"]) {
					emitPair(api, x, "unmark", asL(v), asL(stripMarksJ(v)), true)
				}
			case "call":
				emitCall(api, x, asL(j["a"]))
			}
		}
		return nil
	})
}

func typeRes(fn func() (cty.Type, error)) J {
	var t cty.Type
	var err error
	p, msg := guard(func() { t, err = fn() })
	switch {
	case p:
		return failed("panic", trunc(msg))
	case err != nil:
		r := failed("error", trunc(err.Error()))
		if _, ok := err.(function.PanicError); ok {
			r["fail"] = "panicerror"
		}
		return r
	}
	return J{"ok": true, "t": ProjectType(t)}
}

// allowMarked reports, per argument position, the AllowMarked flag the real
// function declares (read from the function's own Params/VarParam).
func allowMarked(name string, x J, n int) []any {
	f, ok := lookupFunc(name, x)
	if !ok {
		return nil
	}
	out := make([]any, n)
	ps := f.Params()
	vp := f.VarParam()
	for i := 0; i < n; i++ {
		switch {
		case i < len(ps):
			out[i] = ps[i].AllowMarked
		case vp != nil:
			out[i] = vp.AllowMarked
		default:
			out[i] = false
		}
	}
	return out
}

var _ = cty.NilVal
