package main

// C03 / C20: replays behaviours of the ValueSetSM state machine against real
// cty.ValueSet objects; after every operation the members of EVERY live set are logged.

import (
	"github.com/zclconf/go-cty/cty"
)

func init() { register("vset", driveVSet) }

func driveVSet(c *Ctx) error {
	return readLines(c.In, func(j J) error {
		poolJ := asL(j["pool"])
		pool := make([]cty.Value, len(poolJ))
		echo := make([]any, len(poolJ))
		for i, pj := range poolJ {
			p := asJ(pj)
			pool[i] = Concretize(asJ(p["a"]), asI(p["rep"]))
			echo[i] = Project(pool[i])
		}
		ety := pool[0].Type()
		sets := map[string]cty.ValueSet{"s1": cty.NewValueSet(ety), "s2": cty.NewValueSet(ety), "s3": cty.NewValueSet(ety)}
		snapshot := func() (J, J) {
			m, l := J{}, J{}
			for k, s := range sets {
				m[k] = projectArgs(s.Values())
				l[k] = s.Length()
			}
			return m, l
		}
		c.Out.Emit(J{"ev": "vreset", "pool": echo})
		for _, oj := range asL(j["beh"]) {
			o := asJ(oj)
			ev := J{"ev": "vop", "o": o}
			p, msg := guard(func() {
				switch asS(o["op"]) {
				case "Add":
					sets[asS(o["s"])].Add(pool[asI(o["e"])-1])
				case "Remove":
					sets[asS(o["s"])].Remove(pool[asI(o["e"])-1])
				case "Has":
					ev["res"] = sets[asS(o["s"])].Has(pool[asI(o["e"])-1])
				case "Values":
				case "Copy":
					sets[asS(o["t"])] = sets[asS(o["s"])].Copy()
				case "RoundTrip":
					sv := cty.SetValFromValueSet(sets[asS(o["s"])])
					ev["setval"] = Project(sv)
					sets[asS(o["t"])] = sv.AsValueSet()
				case "Union":
					sets[asS(o["u"])] = sets[asS(o["s"])].Union(sets[asS(o["t"])])
				case "Intersection":
					sets[asS(o["u"])] = sets[asS(o["s"])].Intersection(sets[asS(o["t"])])
				case "Subtract":
					sets[asS(o["u"])] = sets[asS(o["s"])].Subtract(sets[asS(o["t"])])
				case "SymmetricDifference":
					sets[asS(o["u"])] = sets[asS(o["s"])].SymmetricDifference(sets[asS(o["t"])])
				default:
					panic("harness: unknown vset op")
				}
			})
			if p {
				ev["panic"] = trunc(msg)
			}
			ev["slots"], ev["len"] = snapshot()
			c.Out.Emit(ev)
			if p {
				break
			}
		}
		return nil
	})
}
