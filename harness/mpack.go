package main

import (
	"github.com/zclconf/go-cty/cty"
	"github.com/zclconf/go-cty/cty/msgpack"
)

func init() { register("mpack", driveMpack) }

func driveMpack(c *Ctx) error {
	return readLines(c.In, func(j J) error {
		var tys []cty.Type
		for _, tj := range asL(j["tys"]) {
			tys = append(tys, ConcretizeType(asJ(tj)))
		}
		for _, vj := range asL(j["vals"]) {
			for rep := 0; rep < 3; rep++ {
				v := Concretize(asJ(vj), rep)
				for _, ty := range tys {
					ev := J{"ev": "mp", "v": Project(v), "ty": ProjectType(ty), "eq": "U"}
					var b []byte
					var err error
					p, msg := guard(func() { b, err = msgpack.Marshal(v, ty) })
					switch {
					case p:
						ev["m"] = failed("panic", trunc(msg))
					case err != nil:
						ev["m"] = failed("error", trunc(err.Error()))
					default:
						ev["m"] = J{"ok": true, "len": len(b)}
						var back cty.Value
						var berr error
						bp, bmsg := guard(func() { back, berr = msgpack.Unmarshal(b, ty) })
						ev["back"] = resOf(back, berr, bp, bmsg)
						if !bp && berr == nil {
							ev["eq"] = tri(func() cty.Value { return v.Equals(back) })
						}
					}
					if _, ok := ev["back"]; !ok {
						ev["back"] = J{"ok": false, "fail": "skipped"}
					}
					c.Out.Emit(ev)
				}
			}
		}
		return nil
	})
}
