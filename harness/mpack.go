package main

import (
	"github.com/zclconf/go-cty/cty"
	"github.com/zclconf/go-cty/cty/msgpack"
)

var prevMpBytes []byte
var prevMpDigest string

func init() { register("mpack", driveMpack) }

func driveMpack(c *Ctx) error {
	return readLines(c.In, func(j J) error {
		var tys []cty.Type
		for _, tj := range asL(j["tys"]) {
			tys = append(tys, ConcretizeType(asJ(tj)))
		}
		for _, vj := range asL(j["vals"]) {
			for rep := 0; rep < 3; rep++ {
				v := Concretize(asJ(vj), rep)
				for _, ty := range tys {
					ev := J{"ev": "mp", "v": Project(v), "ty": ProjectType(ty), "eq": "U"}
					ev["ia"] = digestOf(ev["v"], ev["ty"])
					var b []byte
					var err error
					p, msg := guard(func() { b, err = msgpack.Marshal(v, ty) })
					switch {
					case p:
						ev["m"] = failed("panic", trunc(msg))
					case err != nil:
						ev["m"] = failed("error", trunc(err.Error()))
					default:
						ev["m"] = J{"ok": true, "len": len(b)}
						if prevMpBytes != nil {
							ev["pb"], ev["pb2"] = prevMpDigest, digestOf(string(prevMpBytes))
						}
						prevMpBytes, prevMpDigest = b, digestOf(string(b))
						var back cty.Value
						var berr error
						bp, bmsg := guard(func() { back, berr = msgpack.Unmarshal(b, ty) })
						ev["back"] = resOf(back, berr, bp, bmsg)
						if !bp && berr == nil {
							ev["eq"] = tri(func() cty.Value { return v.Equals(back) })
							if !v.IsKnown() && !v.IsMarked() && v.Type() == cty.Number && back.Type() == cty.Number && !back.IsMarked() {
								// does the decoded range still admit the original's own inclusive bounds?
								// (observed through the decoded value's Range().Includes; judged by the trace spec)
								bi := []any{}
								r := v.Range()
								lo, loInc := r.NumberLowerBound()
								hi, hiInc := r.NumberUpperBound()
								for _, bd := range []struct {
									side string
									n    cty.Value
									inc  bool
								}{{"lo", lo, loInc}, {"hi", hi, hiInc}} {
									if bd.n.IsKnown() && !bd.n.AsBigFloat().IsInf() {
										n := bd.n
										bi = append(bi, J{"side": bd.side, "inc": bd.inc, "ans": tri(func() cty.Value { return back.Range().Includes(n) })})
									}
								}
								ev["bi"] = bi
							}
						}
					}
					if _, ok := ev["back"]; !ok {
						ev["back"] = J{"ok": false, "fail": "skipped"}
					}
					ev["ia2"] = digestOf(Project(v), ProjectType(ty))
					c.Out.Emit(ev)
				}
			}
		}
		return nil
	})
}
