---------------------------- MODULE GoBridgeTrace ----------------------------
EXTENDS GoBridge, Json
Trace == ndJsonDeserialize(IOEnv.VTRACE)
VARIABLES l, cnt
Init == l = 1 /\ cnt = [events |-> 0, nontrivial |-> 0, gnum |-> 0, grt |-> 0, ginto |-> 0]
Failed(e) == CASE e.ev = "gnum" -> GnumFailed(e) [] e.ev = "grt" -> GrtFailed(e) [] e.ev = "ginto" -> GintoFailed(e)
Next == /\ l <= Len(Trace)
        /\ LET e == Trace[l] IN
           /\ \A x \in Failed(e) \cup Reread(e) : PrintT(<<"VIOL", l, x>>)
           /\ cnt' = [cnt EXCEPT !.events = @ + 1, ![e.ev] = @ + 1,
                                 !.nontrivial = @ + (IF (e.ev = "gnum" /\ e.r.ok) \/ (e.ev = "grt" /\ e.back.ok) \/ (e.ev = "ginto" /\ e.r.ok) THEN 1 ELSE 0)]
        /\ l' = l + 1
        /\ (l = Len(Trace) => PrintT(<<"DONE", l, cnt'>>))
=============================================================================
