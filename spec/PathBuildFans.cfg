INIT Init
NEXT Next
