------------------------------ MODULE StdlibRef -----------------------------
(***************************************************************************)
(* Reference semantics of the collection, set and sequence functions of    *)
(* the standard library on wholly known arguments, written over TLA+       *)
(* sequences, functions and sets (result VALUE and result TYPE), with the  *)
(* documented reject conditions.  SRef(fn, a) is OKV(v), REJ or UNDEF (the  *)
(* reference does not decide: mixed argument types needing unification,    *)
(* nulls where the documentation is silent, ...).                 [C13]    *)
(***************************************************************************)
EXTENDS Stdlib

IsSeqV(v) == v.st = "k" /\ v.ty.k \in {"list", "set", "tuple"}
IsMapV(v) == v.st = "k" /\ v.ty.k \in {"map", "object"}
WholeIdx(n) == IF Has(n, "q") /\ n.q % 4 = 0 THEN n.q \div 4 ELSE -999999
IsWhole(v) == IsNumK(v) /\ Has(v.v, "q") /\ v.v.q % 4 = 0
ElemTys(v) == IF v.ty.k = "tuple" THEN v.ty.es ELSE [i \in 1..Len(Elems(v)) |-> v.ty.e]
MkSeq(kind, ety, etys, elems) ==      \* a list / tuple with the given members
  IF kind = "tuple" THEN SeqV(TTup(etys), elems) ELSE SeqV([k |-> kind, e |-> ety], elems)
KeyRank(x) == IF x = "a" THEN 1 ELSE IF x = "b" THEN 2 ELSE IF x = "c" THEN 3 ELSE 4
SortedKeys(m) == SortSeq(SetToSeq(DOMAIN m), LAMBDA x, y : KeyRank(x) < KeyRank(y))   \* single-character names
EqV(x, y) == IF x.st = "null" \/ y.st = "null" THEN x.st = y.st ELSE TEquals(x.ty, y.ty) /\ AbsEq(x, y)
RECURSIVE DistinctSeq(_)
DistinctSeq(s) == IF s = <<>> THEN <<>> ELSE
                  LET r == DistinctSeq(SubSeq(s, 1, Len(s) - 1)) x == s[Len(s)] IN
                  IF \E i \in 1..Len(r) : EqV(r[i], x) THEN r ELSE Append(r, x)
RECURSIVE ConcatAll(_)
ConcatAll(ss) == IF ss = <<>> THEN <<>> ELSE ss[1] \o ConcatAll(Tail(ss))
RevSeq(s) == [i \in 1..Len(s) |-> s[Len(s) + 1 - i]]
AllSame(S) == Cardinality(S) <= 1

\* abstract characters in byte order (for sort)
CharRank == [x \in {" ", "%", "(", ")", ",", "-", "0", "1", "A", "[", "a", "b", "c", "d", "e", "h", "l", "n", "r", "s", "t", "u", "v", "{", "}", "LF", "acute"} |->
   CASE x = "LF" -> 1 [] x = " " -> 2 [] x = "%" -> 3 [] x = "(" -> 4 [] x = ")" -> 5 [] x = "," -> 6 [] x = "-" -> 7 [] x = "0" -> 8 [] x = "1" -> 9
     [] x = "A" -> 10 [] x = "[" -> 11 [] x = "a" -> 12 [] x = "b" -> 13 [] x = "c" -> 14 [] x = "d" -> 15 [] x = "e" -> 16 [] x = "h" -> 17
     [] x = "l" -> 18 [] x = "n" -> 19 [] x = "r" -> 20 [] x = "s" -> 21 [] x = "t" -> 22 [] x = "u" -> 23 [] x = "v" -> 24 [] x = "{" -> 25
     [] x = "}" -> 26 [] x = "acute" -> 27]
RECURSIVE StrLess(_, _)
StrLess(s, t) == IF s = <<>> THEN t # <<>> ELSE IF t = <<>> THEN FALSE
                 ELSE IF s[1] = t[1] THEN StrLess(Tail(s), Tail(t)) ELSE CharRank[s[1]] < CharRank[t[1]]
Sortable(s) == \A i \in 1..Len(s) : s[i].st = "k" /\ \A j \in 1..Len(StrOf(s[i])) : StrOf(s[i])[j] \in DOMAIN CharRank

\* number of values start, start+step, ... strictly before lim (quarters; step # 0, direction checked by the caller)
RangeCount(start, lim, step) == IF step > 0 THEN (lim - start + step - 1) \div step ELSE (start - lim + (-step) - 1) \div (-step)
RangeSeq(start, lim, step) == [i \in 1..RangeCount(start, lim, step) |-> NumV(start + (i - 1) * step)]
RangeMax == 1024      \* documented limit on the number of generated values

SetOf(v) == {Canon(Elems(v)[i]) : i \in 1..Len(Elems(v))}
RECURSIVE CatAll(_)
CatAll(ss) == IF ss = <<>> THEN <<>> ELSE Head(ss) \o CatAll(Tail(ss))
RECURSIVE ProdRows(_, _)
ProdRows(a, i) == IF i > Len(a) THEN << <<>> >>
                  ELSE LET rest == ProdRows(a, i + 1) es == Elems(a[i]) IN
                       CatAll([k \in 1..Len(es) |-> [j \in 1..Len(rest) |-> <<es[k]>> \o rest[j]]])
\* set results are compared as sets: the reference lists members in the order of the first argument(s)
SetRes(t, members) == SeqV(t, members)

\* conversion of a primitive value to string, as unification of mixed primitive arguments requires
PrimToStr(v) == IF v.st = "null" THEN Null(TStr)
                ELSE IF v.ty.k = "string" THEN v
                ELSE IF v.ty.k = "bool" THEN StrV(IF BoolOf(v) THEN <<"t", "r", "u", "e">> ELSE <<"f", "a", "l", "s", "e">>)
                ELSE StrV(QText(v.v.q))
\* flatten: every non-null list / set / tuple element is replaced by its own flattened members (sets in iteration order)
RECURSIVE FlatSeq(_)
FlatSeq(v) == ConcatAll([i \in 1..Len(Elems(v)) |-> LET e == Elems(v)[i] IN IF e.st = "k" /\ e.ty.k \in {"list", "set", "tuple"} THEN FlatSeq(e) ELSE <<e>>])
SRef(fn, a) ==
  LET n == Len(a) IN
  CASE fn = "length" ->
         IF n = 1 /\ IsSeqV(a[1]) THEN OKV(NumV(4 * Len(Elems(a[1]))))
         ELSE IF n = 1 /\ a[1].st = "k" /\ a[1].ty.k = "map" THEN OKV(NumV(4 * Cardinality(DOMAIN Attrs(a[1])))) ELSE UNDEF
    [] fn = "element" ->
         IF n = 2 /\ a[1].st = "k" /\ a[1].ty.k \in {"list", "tuple"} /\ IsNumK(a[2]) /\ Has(a[2].v, "q")
         THEN (IF ~IsWhole(a[2]) THEN REJ ELSE IF Len(Elems(a[1])) = 0 THEN REJ
               ELSE OKV(Elems(a[1])[(WholeIdx(a[2].v) % Len(Elems(a[1]))) + 1]))
         ELSE UNDEF
    [] fn = "index" ->
         IF n = 2 /\ a[1].st = "k" /\ a[1].ty.k \in {"list", "tuple", "map"} /\ a[2].st = "k" /\ a[2].ty.k \in {"number", "string"}
                  /\ (a[2].ty.k = "number" => Has(a[2].v, "q"))
         THEN (IF (a[1].ty.k = "map") # (a[2].ty.k = "string") THEN REJ
               ELSE IF RefHasIndex(a[1], a[2]) THEN Ref("Index", a, <<>>) ELSE REJ)
         ELSE UNDEF
    [] fn = "hasindex" ->
         IF n = 2 /\ a[1].st = "k" /\ a[1].ty.k \in {"list", "tuple", "map"} /\ a[2].st = "k" /\ a[2].ty.k \in {"number", "string"}
                  /\ (a[2].ty.k = "number" => Has(a[2].v, "q"))
         THEN OKV(BoolV(RefHasIndex(a[1], a[2]))) ELSE UNDEF
    [] fn = "lookup" ->
         IF n = 3 /\ IsMapV(a[1]) /\ IsStrK(a[2]) /\ Len(StrOf(a[2])) = 1 /\ a[3].st = "k"
         THEN LET key == StrOf(a[2])[1] IN
              IF a[1].ty.k = "map" THEN (IF ~TEquals(a[3].ty, a[1].ty.e) THEN UNDEF
                                         ELSE IF key \in DOMAIN Attrs(a[1]) THEN OKV(Attrs(a[1])[key]) ELSE OKV(a[3]))
              ELSE (IF key \in DOMAIN Attrs(a[1]) THEN OKV(Attrs(a[1])[key]) ELSE OKV(a[3]))
         ELSE UNDEF
    [] fn = "contains" ->
         IF n = 2 /\ IsSeqV(a[1]) /\ a[2].st = "k" /\ (\A i \in 1..Len(Elems(a[1])) : TEquals(Elems(a[1])[i].ty, a[2].ty)) /\ a[1].ty.k # "tuple"
         THEN OKV(BoolV(\E i \in 1..Len(Elems(a[1])) : EqV(Elems(a[1])[i], a[2]))) ELSE UNDEF
    [] fn = "keys" ->
         IF n = 1 /\ IsMapV(a[1]) THEN
            LET ks == SortedKeys(Attrs(a[1])) vs == [i \in 1..Len(ks) |-> StrV(<<ks[i]>>)] IN
            OKV(IF a[1].ty.k = "map" THEN SeqV(TList(TStr), vs) ELSE SeqV(TTup([i \in 1..Len(ks) |-> TStr]), vs))
         ELSE UNDEF
    [] fn = "values" ->
         IF n = 1 /\ IsMapV(a[1]) THEN
            LET ks == SortedKeys(Attrs(a[1])) vs == [i \in 1..Len(ks) |-> Attrs(a[1])[ks[i]]] IN
            OKV(IF a[1].ty.k = "map" THEN SeqV(TList(a[1].ty.e), vs) ELSE SeqV(TTup([i \in 1..Len(ks) |-> a[1].ty.as[ks[i]]]), vs))
         ELSE UNDEF
    [] fn = "merge" ->
         IF n >= 1 /\ (\A i \in 1..n : IsMapV(a[i])) /\ AllSame({a[i].ty : i \in 1..n})
         THEN LET D == UNION {DOMAIN Attrs(a[i]) : i \in 1..n}
                  last(k) == CHOOSE i \in 1..n : k \in DOMAIN Attrs(a[i]) /\ \A j \in (i + 1)..n : k \notin DOMAIN Attrs(a[j])
              IN OKV(MapV(a[1].ty, [k \in D |-> Attrs(a[last(k)])[k]]))
         ELSE UNDEF
    [] fn = "concat" ->
         IF n >= 1 /\ (\A i \in 1..n : a[i].st = "k" /\ a[i].ty.k = "list") /\ AllSame({a[i].ty : i \in 1..n})
         THEN OKV(SeqV(a[1].ty, ConcatAll([i \in 1..n |-> Elems(a[i])])))
         \* lists of different primitive element types with string among them: the element types unify to string,
         \* whether or not some of the lists are empty
         ELSE IF n >= 2 /\ (\A i \in 1..n : a[i].st = "k" /\ a[i].ty.k = "list" /\ IsPrimT(a[i].ty.e)) /\ (\E i \in 1..n : a[i].ty.e.k = "string")
                       /\ (\A i \in 1..n : \A j \in 1..Len(Elems(a[i])) : LET x == Elems(a[i])[j] IN x.st # "unk" /\ (IsNumK(x) => Has(x.v, "q") /\ AbsI(x.v.q) < 4000000))
         THEN OKV(SeqV(TList(TStr), ConcatAll([i \in 1..n |-> [j \in 1..Len(Elems(a[i])) |-> PrimToStr(Elems(a[i])[j])]])))
         ELSE IF n >= 1 /\ (\A i \in 1..n : a[i].st = "k" /\ a[i].ty.k = "tuple")
         THEN OKV(SeqV(TTup(ConcatAll([i \in 1..n |-> a[i].ty.es])), ConcatAll([i \in 1..n |-> Elems(a[i])])))
         ELSE UNDEF
    [] fn = "slice" ->
         IF n = 3 /\ a[1].st = "k" /\ a[1].ty.k \in {"list", "tuple"} /\ IsNumK(a[2]) /\ IsNumK(a[3]) /\ Has(a[2].v, "q") /\ Has(a[3].v, "q")
         THEN LET s == WholeIdx(a[2].v) e == WholeIdx(a[3].v) L == Len(Elems(a[1])) IN
              IF ~IsWhole(a[2]) \/ ~IsWhole(a[3]) \/ s < 0 \/ e < s \/ e > L THEN REJ
              ELSE OKV(MkSeq(a[1].ty.k, IF a[1].ty.k = "list" THEN a[1].ty.e ELSE TDyn,
                             IF a[1].ty.k = "tuple" THEN SubSeq(a[1].ty.es, s + 1, e) ELSE <<>>, SubSeq(Elems(a[1]), s + 1, e)))
         ELSE UNDEF
    [] fn = "chunklist" ->
         IF n = 2 /\ a[1].st = "k" /\ a[1].ty.k = "list" /\ IsNumK(a[2]) /\ Has(a[2].v, "q")
         THEN LET sz == WholeIdx(a[2].v) E == Elems(a[1]) L == Len(Elems(a[1])) IN
              IF ~IsWhole(a[2]) \/ sz < 0 THEN REJ
              ELSE IF sz = 0 THEN (IF L = 0 THEN OKV(SeqV(TList(a[1].ty), <<>>)) ELSE OKV(SeqV(TList(a[1].ty), <<a[1]>>)))
              ELSE LET nch == (L + sz - 1) \div sz IN
                   OKV(SeqV(TList(a[1].ty), [c \in 1..nch |-> SeqV(a[1].ty, SubSeq(E, (c - 1) * sz + 1, IF c * sz < L THEN c * sz ELSE L))]))
         ELSE UNDEF
    [] fn = "distinct" ->
         IF n = 1 /\ a[1].st = "k" /\ a[1].ty.k = "list" THEN OKV(SeqV(a[1].ty, DistinctSeq(Elems(a[1])))) ELSE UNDEF
    [] fn = "compact" ->
         IF n = 1 /\ a[1].st = "k" /\ a[1].ty.k = "list" /\ a[1].ty.e.k = "string"
         THEN OKV(SeqV(a[1].ty, SelectSeq(Elems(a[1]), LAMBDA x : x.st = "k" /\ StrOf(x) # <<>>))) ELSE UNDEF
    [] fn = "reverselist" ->
         IF n = 1 /\ a[1].st = "k" /\ a[1].ty.k = "list" THEN OKV(SeqV(a[1].ty, RevSeq(Elems(a[1]))))
         ELSE IF n = 1 /\ a[1].st = "k" /\ a[1].ty.k = "tuple" THEN OKV(SeqV(TTup(RevSeq(a[1].ty.es)), RevSeq(Elems(a[1]))))
         ELSE UNDEF
    [] fn = "sort" ->
         IF n = 1 /\ a[1].st = "k" /\ a[1].ty.k = "list" /\ a[1].ty.e.k = "string" /\ Sortable(Elems(a[1]))
         THEN OKV(SeqV(a[1].ty, SortSeq(Elems(a[1]), LAMBDA x, y : StrLess(StrOf(x), StrOf(y)))))
         \* a null element has no place in the order: rejected whatever the length of the list
         ELSE IF n = 1 /\ a[1].st = "k" /\ a[1].ty.k = "list" /\ a[1].ty.e.k = "string" /\ (\E i \in 1..Len(Elems(a[1])) : Elems(a[1])[i].st = "null") THEN REJ
         ELSE UNDEF
    [] fn = "zipmap" ->
         IF n = 2 /\ a[1].st = "k" /\ a[1].ty.k = "list" /\ a[1].ty.e.k = "string" /\ a[2].st = "k" /\ a[2].ty.k \in {"list", "tuple"}
                  /\ (\A i \in 1..Len(Elems(a[1])) : Elems(a[1])[i].st = "k" /\ Len(StrOf(Elems(a[1])[i])) = 1)
         THEN LET KS == Elems(a[1]) VS == Elems(a[2]) IN
              IF Len(KS) # Len(VS) THEN REJ
              ELSE LET D == {StrOf(KS[i])[1] : i \in 1..Len(KS)}
                       lastI(k) == CHOOSE i \in 1..Len(KS) : StrOf(KS[i])[1] = k /\ \A j \in (i + 1)..Len(KS) : StrOf(KS[j])[1] # k IN
                   IF a[2].ty.k = "list" THEN OKV(MapV(TMap(a[2].ty.e), [k \in D |-> VS[lastI(k)]]))
                   ELSE OKV(MapV(TObj([k \in D |-> a[2].ty.es[lastI(k)]]), [k \in D |-> VS[lastI(k)]]))
         ELSE UNDEF
    [] fn = "range" ->
         IF n \in 1..3 /\ \A i \in 1..n : IsNumK(a[i]) /\ Has(a[i].v, "q")
         THEN LET start == IF n = 1 THEN 0 ELSE a[1].v.q
                  lim == IF n = 1 THEN a[1].v.q ELSE a[2].v.q
                  step == IF n = 3 THEN a[3].v.q ELSE (IF lim < start THEN -4 ELSE 4) IN
              IF step = 0 THEN REJ
              ELSE IF (step > 0 /\ lim < start) \/ (step < 0 /\ lim > start) THEN REJ
              ELSE IF RangeCount(start, lim, step) > RangeMax THEN REJ
              ELSE OKV(SeqV(TList(TNum), RangeSeq(start, lim, step)))
         ELSE UNDEF
    [] fn = "coalesce" ->
         IF n >= 1 /\ AllSame({a[i].ty : i \in 1..n}) /\ (\A i \in 1..n : a[i].st # "unk")
         THEN (IF \A i \in 1..n : a[i].st = "null" THEN REJ ELSE OKV(a[CHOOSE i \in 1..n : a[i].st # "null" /\ \A j \in 1..(i - 1) : a[j].st = "null"]))
         \* mixed primitive types with a string among them unify to string, whether or not the arguments are null
         ELSE IF n >= 1 /\ (\A i \in 1..n : a[i].st # "unk" /\ IsPrimT(a[i].ty) /\ (IsNumK(a[i]) => Has(a[i].v, "q") /\ AbsI(a[i].v.q) < 4000000))
                       /\ (\E i \in 1..n : a[i].ty.k = "string")
         THEN (IF \A i \in 1..n : a[i].st = "null" THEN REJ
               ELSE OKV(PrimToStr(a[CHOOSE i \in 1..n : a[i].st # "null" /\ \A j \in 1..(i - 1) : a[j].st = "null"])))
         \* a list/map/set argument never unifies with a primitive one
         ELSE IF n >= 2 /\ (\E i, j \in 1..n : IsPrimT(a[i].ty) /\ a[j].ty.k \in {"list", "set", "map"}) THEN REJ
         ELSE UNDEF
    [] fn = "coalescelist" ->
         IF n >= 1 /\ AllSame({a[i].ty : i \in 1..n}) /\ (\A i \in 1..n : a[i].st = "k" /\ a[i].ty.k \in {"list", "tuple"})
         THEN (IF \A i \in 1..n : Len(Elems(a[i])) = 0 THEN REJ ELSE OKV(a[CHOOSE i \in 1..n : Len(Elems(a[i])) > 0 /\ \A j \in 1..(i - 1) : Len(Elems(a[j])) = 0]))
         ELSE UNDEF
    [] fn \in {"setunion", "setintersection", "setsubtract", "setsymmetricdifference"} ->
         IF n >= 1 /\ (\A i \in 1..n : a[i].st = "k" /\ a[i].ty.k = "set") /\ AllSame({a[i].ty : i \in 1..n}) /\ (fn = "setsubtract" => n = 2)
         THEN LET RECURSIVE Fold(_, _)
                  Fold(acc, i) == IF i > n THEN acc ELSE
                     Fold(CASE fn = "setunion" -> acc \cup SetOf(a[i])
                            [] fn = "setintersection" -> acc \cap SetOf(a[i])
                            [] fn = "setsubtract" -> acc \ SetOf(a[i])
                            [] fn = "setsymmetricdifference" -> (acc \ SetOf(a[i])) \cup (SetOf(a[i]) \ acc), i + 1)
              IN OKV([ty |-> a[1].ty, st |-> "k", v |-> [z |-> Fold(SetOf(a[1]), 2)]])
         ELSE UNDEF
    [] fn = "flatten" ->
         IF n = 1 /\ IsSeqV(a[1]) THEN LET fs == FlatSeq(a[1]) IN OKV(SeqV(TTup([i \in 1..Len(fs) |-> fs[i].ty]), fs))
         ELSE IF n = 1 /\ a[1].st = "k" /\ a[1].ty.k \in {"map", "object", "number", "string", "bool"} THEN REJ
         ELSE UNDEF
    \* setproduct of known lists / sets (no tuples, so no element unification): every combination once, the LAST argument varying fastest;
    \* a list of tuples if every argument is a list, else a set of tuples
    [] fn = "setproduct" ->
         IF n >= 2 /\ (\A i \in 1..n : a[i].st = "k" /\ a[i].ty.k \in {"list", "set"} /\ ~HasDyn(a[i].ty)) THEN
            LET ets == [i \in 1..n |-> a[i].ty.e]
                rows == ProdRows(a, 1)
                allLists == \A i \in 1..n : a[i].ty.k = "list"
                rowV(r) == SeqV(TTup(ets), r)
            IN IF allLists THEN OKV(SeqV(TList(TTup(ets)), [k \in 1..Len(rows) |-> rowV(rows[k])]))
               ELSE OKV(SeqV(TSet(TTup(ets)), [k \in 1..Len(rows) |-> rowV(rows[k])]))
         ELSE UNDEF
    [] fn = "sethaselement" ->
         IF n = 2 /\ a[1].st = "k" /\ a[1].ty.k = "set" /\ TEquals(a[2].ty, a[1].ty.e) /\ a[2].st = "k"
         THEN OKV(BoolV(\E i \in 1..Len(Elems(a[1])) : AbsEq(Elems(a[1])[i], a[2]))) ELSE UNDEF
    [] OTHER -> UNDEF

RefFns == {"length", "element", "index", "hasindex", "lookup", "contains", "keys", "values", "merge", "concat", "slice", "chunklist", "distinct",
           "compact", "reverselist", "sort", "zipmap", "range", "coalesce", "coalescelist", "setunion", "setintersection", "setsubtract",
           "setsymmetricdifference", "sethaselement", "flatten", "setproduct"}

\* observed vs reference: canonical forms (sets as sets); the reference for set functions is already canonical
MatchS(o, r) == IF r.st = "k" /\ Has(r.v, "z") THEN Canon(o) = r ELSE Canon(o) = Canon(r)

RefFailed(e) ==
  IF ~(e.fn \in RefFns /\ AllWhollyKnown(e.a) /\ NoMarksIn(e.a) /\ AllRanked(e.a)) THEN {}
  ELSE LET ref == SRef(e.fn, e.a) IN
       IF Has(ref, "undef") THEN {}
       ELSE IF ~ref.ok THEN (IF e.r.ok THEN {"C13.FailsOutsideDomain"} ELSE {})
       ELSE IF ~e.r.ok THEN {"C13.FailsOnlyOutsideDomain"}
       ELSE IF MatchS(e.r.val, ref.val) THEN {} ELSE {"C13.ResultIsRef"}
RefDecided(e) == e.fn \in RefFns /\ AllWhollyKnown(e.a) /\ NoMarksIn(e.a) /\ AllRanked(e.a) /\ ~Has(SRef(e.fn, e.a), "undef")
=============================================================================
