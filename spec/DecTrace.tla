------------------------------ MODULE DecTrace ------------------------------
EXTENDS Decoders, Json
Trace == ndJsonDeserialize(IOEnv.VTRACE)
VARIABLES l, cnt
Init == l = 1 /\ cnt = [events |-> 0, nontrivial |-> 0, accepted |-> 0, mustfail |-> 0]
Next == /\ l <= Len(Trace)
        /\ LET e == Trace[l] IN
           /\ \A x \in DecFailed(e) : PrintT(<<"VIOL", l, x>>)
           /\ cnt' = [cnt EXCEPT !.events = @ + 1, !.accepted = @ + (IF e.out.ok THEN 1 ELSE 0), !.mustfail = @ + (IF e.mustfail THEN 1 ELSE 0),
                                 !.nontrivial = @ + (IF e.out.ok \/ e.mustfail THEN 1 ELSE 0)]
        /\ l' = l + 1
        /\ (l = Len(Trace) => PrintT(<<"DONE", l, cnt'>>))
=============================================================================
