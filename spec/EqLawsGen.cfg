INIT Init
NEXT Next
