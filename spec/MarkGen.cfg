INIT Init
NEXT Next
