INIT Init
NEXT Next
