------------------------------- MODULE Values -------------------------------
(***************************************************************************)
(* Bounded universe of VALUES over the types of Universe.tla, the          *)
(* refinement menu, weakenings (replace sub-values by unknowns that admit  *)
(* them) and mark placements.  TLC enumerates these sets; the Go harness   *)
(* concretizes every element into a real cty.Value.                        *)
(* The tier (quick / thorough) is read from the environment (VTIER).       *)
(***************************************************************************)
EXTENDS Relations, IOUtils

Env(k, d) == IF k \in DOMAIN IOEnv THEN IOEnv[k] ELSE d
Tier == Env("VTIER", "quick")
Thorough == Tier = "thorough"
EnvInt(k, d) == IF k \in DOMAIN IOEnv THEN atoi(IOEnv[k]) ELSE d

(***************************************************************************)
(* Decimal text of small numbers (as conversion to string, %v and JSON     *)
(* spell them)                                                             *)
(***************************************************************************)
AbsQ(i) == IF i < 0 THEN -i ELSE i
Digits  == <<"0", "1", "2", "3", "4", "5", "6", "7", "8", "9">>
RECURSIVE NatDigits(_)
NatDigits(n) == IF n < 10 THEN <<Digits[n + 1]>> ELSE NatDigits(n \div 10) \o <<Digits[(n % 10) + 1]>>
IntText(k) == IF k < 0 THEN <<"-">> \o NatDigits(-k) ELSE NatDigits(k)
\* shortest decimal text of a quarter-lattice number of magnitude < 10^6 (as %v and JSON write it)
QText(q) == LET m == AbsQ(q) fr == m % 4 IN
  (IF q < 0 THEN <<"-">> ELSE <<>>) \o NatDigits(m \div 4)
  \o (CASE fr = 0 -> <<>> [] fr = 1 -> <<".", "2", "5">> [] fr = 2 -> <<".", "5">> [] fr = 3 -> <<".", "7", "5">>)

(***************************************************************************)
(* Leaves                                                                  *)
(***************************************************************************)
QS  == IF Thorough THEN {-8, -4, -2, -1, 0, 1, 2, 4, 6, 8, 12} ELSE {-4, 0, 2, 4, 8}
MQS == {0, 4, 8}                 \* numbers used as members of collections: 0, 1, 2
NumsFin == {Qn(q) : q \in QS}
Nums    == NumsFin \cup {PInf, NInf}
Strs  == IF Thorough THEN {<<>>, <<"a">>, <<"b">>, <<"a", "b">>, <<"a", "b", "c">>, <<"b", "a">>}
                     ELSE {<<>>, <<"a">>, <<"a", "b">>, <<"b">>}
MStrs == {<<"a">>, <<"a", "b">>, <<>>}

Names == {"a", "b"}

\* values of a primitive type at operand level
PrimVals(t) ==
  CASE t.k = "bool"   -> {BoolV(TRUE), BoolV(FALSE)}
    [] t.k = "number" -> {K(TNum, n) : n \in Nums}
    [] t.k = "string" -> {StrV(s) : s \in Strs}

\* values of a primitive type as members of structures (smaller)
PrimMembers(t) ==
  CASE t.k = "bool"   -> {BoolV(TRUE), BoolV(FALSE)}
    [] t.k = "number" -> {K(TNum, Qn(q)) : q \in MQS}
    [] t.k = "string" -> {StrV(s) : s \in MStrs}

\* operands re-read after a call report what they reported before it (ia / ia2: digests of their full projections)
Reread(e) == IF Has(e, "ia") /\ Has(e, "ia2") /\ e.ia # e.ia2 THEN {"C20.Immutable"} ELSE {}
TakeN(S, n) == LET s == SetToSeq(S) IN {s[i] : i \in 1..(IF Len(s) < n THEN Len(s) ELSE n)}

SubsetsUpTo(S, n) == {x \in SUBSET S : Cardinality(x) <= n}

(***************************************************************************)
(* Known values of a type.  Vals(t, w): w bounds collection width; members *)
(* of nested collections are drawn from a thinned member set so that the   *)
(* universe stays enumerable.  Nulls occur as members.                     *)
(***************************************************************************)
RECURSIVE Vals(_, _), Members_(_, _), TupProd(_, _, _)
Members_(t, w) ==   \* candidate member values of type t (known + null)
  IF t.k = "dynamic" THEN {Null(t)}       \* a known structure holds only untyped nulls (or DynamicVal, a weakening) at a placeholder position
  ELSE IF IsPrimT(t) THEN PrimMembers(t) \cup {Null(t)}
  ELSE TakeN(Vals(t, w), IF Thorough THEN 4 ELSE 3) \cup {Null(t)}

Vals(t, w) ==
  CASE IsPrimT(t) -> PrimVals(t)
    [] t.k = "list" -> {SeqV(t, s) : s \in SeqsUpTo(Members_(t.e, w), w)}
    [] t.k = "set"  -> {SeqV(t, SetToSeq(x)) : x \in SubsetsUpTo(Members_(t.e, w), w)}
    [] t.k = "map"  -> {MapV(t, f) : f \in RecsOver(Names, Members_(t.e, w))}
    [] t.k = "tuple" ->
         IF Len(t.es) = 0 THEN {SeqV(t, <<>>)}
         ELSE IF Len(t.es) = 1 THEN {SeqV(t, <<x>>) : x \in Members_(t.es[1], w)}
         ELSE IF Len(t.es) = 2 THEN {SeqV(t, <<x, y>>) : x \in Members_(t.es[1], w), y \in Members_(t.es[2], w)}
         ELSE {SeqV(t, s) : s \in TupProd(t.es, w, 1)}
    [] t.k = "object" ->
         LET D == DOMAIN t.as IN
         {MapV(t, f) : f \in {g \in [D -> UNION {Members_(t.as[n], w) : n \in D}] : \A n \in D : g[n] \in Members_(t.as[n], w)}}
    [] OTHER -> {}

TupProd(es, w, i) == IF i > Len(es) THEN {<<>>} ELSE {<<x>> \o r : x \in TakeN(Members_(es[i], w), 2), r \in TupProd(es, w, i + 1)}

\* The value types used as operands
VT1 == {TList(TNum), TList(TStr), TSet(TNum), TSet(TStr), TMap(TNum), TMap(TStr), TMap(TBool),
        TTup(<<TNum, TStr>>), TTup(<<>>), TTup(<<TBool>>),
        TObj([a |-> TNum, b |-> TStr]), TObj([a |-> TBool]), TObj(<<>>)}
VT2 == {TList(TList(TNum)), TList(TObj([a |-> TNum])), TMap(TList(TStr)), TSet(TTup(<<TNum, TStr>>)),
        TSet(TList(TNum)), TObj([a |-> TList(TNum), b |-> TStr]), TTup(<<TList(TStr), TNum>>),
        TSet(TObj([a |-> TStr])), TMap(TMap(TNum)), TList(TSet(TStr)), TObj([a |-> TObj([b |-> TNum])])}
VT  == PrimTypes \cup VT1 \cup VT2

W == 2
AllVals(t) == Vals(t, W) \cup {Null(t)}

(***************************************************************************)
(* Refinement menu: unknown values that admit a given value c.             *)
(***************************************************************************)
NullFlags(c) == IF c.st = "k" THEN {"U", "F"} ELSE {"U"}

Below(n) == LET S == {m \in NumsFin : NumLT(m, n)} IN
            IF S = {} THEN {} ELSE {CHOOSE m \in S : \A x \in S : NumLE(x, m)}
Above(n) == LET S == {m \in NumsFin : NumLT(n, m)} IN
            IF S = {} THEN {} ELSE {CHOOSE m \in S : \A x \in S : NumLE(m, x)}

NumRefs(n, nn) ==
  LET fin == ~IsInfN(n) IN
  (IF fin THEN {[null |-> nn, lo |-> n, loInc |-> TRUE], [null |-> nn, hi |-> n, hiInc |-> TRUE]} ELSE {})
  \cup {[null |-> nn, lo |-> b, loInc |-> i] : b \in Below(n), i \in BOOLEAN}
  \cup {[null |-> nn, hi |-> a, hiInc |-> i] : a \in Above(n), i \in BOOLEAN}
  \cup {[null |-> nn, lo |-> b, loInc |-> FALSE, hi |-> a, hiInc |-> FALSE] : b \in Below(n), a \in Above(n)}
  \cup (IF fin THEN {[null |-> nn, lo |-> n, loInc |-> TRUE, hi |-> a, hiInc |-> FALSE] : a \in Above(n)} ELSE {})
  \cup (IF fin THEN {[null |-> nn, lo |-> b, loInc |-> FALSE, hi |-> n, hiInc |-> TRUE] : b \in Below(n)} ELSE {})

StrRefs(s, nn) == {[null |-> nn, prefix |-> SubSeq(s, 1, i)] : i \in 1..Len(s)}

LenRefs(lo, hi, nn) ==   \* c has a length somewhere in lo..hi (canonical records: no minLen 0)
  (IF lo = hi THEN (IF hi = 0 THEN {[null |-> nn, maxLen |-> 0]} ELSE {[null |-> nn, minLen |-> hi, maxLen |-> hi]}) ELSE {})
  \cup {[null |-> nn, maxLen |-> hi + 1], [null |-> nn, maxLen |-> hi]}
  \cup (IF lo >= 1 THEN {[null |-> nn, minLen |-> lo]} ELSE {})
  \cup (IF lo >= 2 THEN {[null |-> nn, minLen |-> lo - 1]} ELSE {})

\* t with one nested position (not the top) replaced by the placeholder
RECURSIVE DynBelow(_)
DynBelow(t) ==
  CASE t.k \in CollKinds -> {[t EXCEPT !.e = TDyn]} \cup {[t EXCEPT !.e = x] : x \in DynBelow(t.e)}
    [] t.k = "tuple" -> UNION {{[t EXCEPT !.es[i] = TDyn]} \cup {[t EXCEPT !.es[i] = x] : x \in DynBelow(t.es[i])} : i \in 1..Len(t.es)}
    [] t.k = "object" -> UNION {{[t EXCEPT !.as[n] = TDyn]} \cup {[t EXCEPT !.as[n] = x] : x \in DynBelow(t.as[n])} : n \in DOMAIN t.as}
    [] OTHER -> {}
NullMenu(t) ==
  CASE t.k = "number" -> {Unk(t, [null |-> "U", lo |-> Qn(0), loInc |-> TRUE]), Unk(t, [null |-> "U", lo |-> Qn(4), loInc |-> TRUE, hi |-> Qn(4), hiInc |-> TRUE])}
    [] t.k = "string" -> {Unk(t, [null |-> "U", prefix |-> <<"a">>])}
    [] IsCollT(t) -> {Unk(t, [null |-> "U", maxLen |-> 0]), Unk(t, [null |-> "U", minLen |-> 1, maxLen |-> 1]), Unk(t, [null |-> "U", minLen |-> 2])}
    [] OTHER -> {}
UnkMenu(c) ==
  IF c.st = "unk" THEN {}
  ELSE LET t == c.ty IN
    {Unk(t, [null |-> nn]) : nn \in NullFlags(c)} \cup
    \* unknown values of a type that still has a placeholder below its top (list(dynamic), object({a=dynamic}), ...)
    {Unk(g, [null |-> nn]) : g \in DynBelow(t), nn \in NullFlags(c)} \cup
    \* a null is admitted by any refinement that leaves nullness open: bounds, prefixes and lengths constrain the non-null case only
    (IF c.st = "null" THEN NullMenu(t) ELSE {}) \cup
    (IF c.st # "k" THEN {} ELSE
      CASE t.k = "number" -> UNION {{Unk(t, r) : r \in NumRefs(c.v, nn)} : nn \in NullFlags(c)}
        [] t.k = "string" -> UNION {{Unk(t, r) : r \in StrRefs(StrOf(c), nn)} : nn \in NullFlags(c)}
        [] IsCollT(t)     -> UNION {{Unk(t, r) : r \in LenRefs(LenLoOf(c), LenHiOf(c), nn)} : nn \in NullFlags(c)}
        [] OTHER -> {})

\* a thinner menu for nested positions and for quick tiers
UnkMenuLite(c) ==
  IF c.st = "unk" THEN {}
  ELSE LET t == c.ty IN
    {Unk(t, NoRf)} \cup
    (IF c.st = "null" THEN TakeN(NullMenu(t), 2) ELSE {}) \cup
    (IF c.st # "k" THEN {} ELSE
      {Unk(t, [null |-> "F"])} \cup
      CASE t.k = "number" /\ ~IsInfN(c.v) -> {Unk(t, [null |-> "F", lo |-> c.v, loInc |-> TRUE])}
                                             \cup {Unk(t, [null |-> "U", hi |-> a, hiInc |-> FALSE]) : a \in Above(c.v)}
        [] t.k = "string" /\ Len(StrOf(c)) > 0 -> {Unk(t, [null |-> "F", prefix |-> SubSeq(StrOf(c), 1, 1)])}
        [] IsCollT(t) -> {Unk(t, [null |-> "F", maxLen |-> LenHiOf(c) + 1])}
        [] OTHER -> {})

(***************************************************************************)
(* Weakenings.  Weak1(v, M): all values obtained from v by replacing       *)
(* exactly one position (the top or any nested member) using menu M.       *)
(* WeakN iterates.  Every element w satisfies Admits(w, v) (model-checked  *)
(* in MC and re-checked on every recorded event as a premise).             *)
(***************************************************************************)
RECURSIVE Weak1(_, _)
Weak1(v, lite) ==
  (IF lite THEN UnkMenuLite(v) ELSE UnkMenu(v)) \cup
  (IF v.st # "k" THEN {}
   ELSE CASE v.ty.k \in {"list", "set", "tuple"} ->
               UNION {{SetElem(v, i, w) : w \in Weak1(Elems(v)[i], TRUE)} : i \in 1..Len(Elems(v))}
               \* a set may hold, next to a member, a further member that admits the same value (the two coalesce)
               \cup (IF v.ty.k = "set" THEN UNION {{[v EXCEPT !.v = [l |-> Append(Elems(v), w)]] : w \in Weak1(Elems(v)[i], TRUE)} : i \in 1..Len(Elems(v))} ELSE {})
               \* two members of a set weakened at the same nested position to the same form (structurally identical members that remain distinct values)
               \cup (IF v.ty.k = "set" /\ Len(Elems(v)) = 2
                     THEN {SetElem(SetElem(v, 1, w), 2, w) : w \in {x \in Weak1(Elems(v)[1], TRUE) \cap Weak1(Elems(v)[2], TRUE) : x.st = "k"}} ELSE {})
          [] v.ty.k \in {"map", "object"} ->
               UNION {{SetAttr(v, n, w) : w \in Weak1(Attrs(v)[n], TRUE)} : n \in DOMAIN Attrs(v)}
          [] OTHER -> {})

\* every unknown part of v is TYPED: its type constraint holds no placeholder (the standard-library property C12 speaks of typed
\* unknown values; a parameter typed list(string) does not accept an unknown list(dynamic) by design of the call protocol)
RECURSIVE TypedUnknowns(_)
TypedUnknowns(v) == IF v.st = "unk" THEN ~HasDyn(v.ty) ELSE IF v.st = "k" THEN \A m \in Members(v) : TypedUnknowns(m) ELSE TRUE
RECURSIVE WeakN(_, _, _)
WeakN(v, n, lite) ==
  IF n = 0 THEN {v}
  ELSE LET S == WeakN(v, n - 1, lite) IN S \cup UNION {Weak1(w, lite) : w \in S}

(***************************************************************************)
(* Typed unknown values not tied to a concrete value (for conversions,     *)
(* codecs, functions): a menu per type.                                    *)
(***************************************************************************)
UnkVals(t) ==
  {Unk(t, [null |-> nn]) : nn \in {"U", "F"}} \cup
  CASE t.k = "number" -> {Unk(t, [null |-> "F", lo |-> Qn(0), loInc |-> TRUE]),
                          Unk(t, [null |-> "U", lo |-> Qn(0), loInc |-> FALSE, hi |-> Qn(8), hiInc |-> TRUE]),
                          Unk(t, [null |-> "F", hi |-> Qn(4), hiInc |-> FALSE])}
    [] t.k = "string" -> {Unk(t, [null |-> "F", prefix |-> <<"a">>]), Unk(t, [null |-> "U", prefix |-> <<"a", "b">>])}
    [] IsCollT(t) -> {Unk(t, [null |-> "F", minLen |-> 1]), Unk(t, [null |-> "U", maxLen |-> 2]),
                      Unk(t, [null |-> "F", minLen |-> 1, maxLen |-> 2])}
    [] OTHER -> {}

(***************************************************************************)
(* Mark placements: marks m1, m2 on the top level and on nested members.   *)
(***************************************************************************)
MarkSets == {<<>>, <<"m1">>, <<"m1", "m2">>}

RECURSIVE MarkNested(_, _)
MarkNested(v, mk) ==   \* v with mark set mk placed on exactly one nested member (any depth >= 1)
  IF v.st # "k" THEN {}
  ELSE CASE v.ty.k \in {"list", "tuple"} ->
              UNION {{SetElem(v, i, WithMk(Elems(v)[i], mk))} \cup {SetElem(v, i, w) : w \in MarkNested(Elems(v)[i], mk)} : i \in 1..Len(Elems(v))}
         [] v.ty.k \in {"map", "object"} ->
              UNION {{SetAttr(v, n, WithMk(Attrs(v)[n], mk))} \cup {SetAttr(v, n, w) : w \in MarkNested(Attrs(v)[n], mk)} : n \in DOMAIN Attrs(v)}
         [] OTHER -> {}     \* sets cannot hold marked members

MarkPlacements(v) ==
  {WithMk(v, m) : m \in MarkSets}
  \cup MarkNested(v, <<"m2">>)
  \cup {WithMk(w, <<"m1">>) : w \in MarkNested(v, <<"m2">>)}
  \* the SAME mark on two nested members (in the same or in sibling containers)
  \cup TakeN(UNION {MarkNested(w, <<"m2">>) : w \in MarkNested(v, <<"m2">>)}, 6)
  \* two nested members carrying different marks under an unmarked top level
  \cup TakeN(UNION {MarkNested(w, <<"m1">>) : w \in MarkNested(v, <<"m2">>)}, 8)

=============================================================================
