------------------------------ MODULE WalkGen -------------------------------
EXTENDS Walk, Json
ShardI == EnvInt("VSHARDI", 0)
ShardN == EnvInt("VSHARDN", 1)
WT == IF Thorough THEN VT ELSE PrimTypes \cup VT1 \cup TakeN(VT2, 7)
\* values: known structures with null members, plus variants with unknown and marked members
Base == UNION {TakeN(AllVals(t), IF Thorough THEN 30 ELSE 14) : t \in WT}
Variants(v) == {v} \cup TakeN(Weak1(v, TRUE), 3) \cup TakeN(MarkPlacements(v), 4)
               \cup UNION {TakeN(MarkPlacements(w), 2) : w \in TakeN(Weak1(v, TRUE), 2)}
               \* two and three marked paths in one value (top + nested, nested + nested)
               \cup TakeN({WithMk(w, <<"m1">>) : w \in MarkNested(v, <<"m2">>)}, 2)
               \cup TakeN(UNION {MarkNested(w, <<"m1">>) : w \in TakeN(MarkNested(v, <<"m2">>), 3)}, 3)
               \cup TakeN(UNION {{WithMk(x, <<"m1", "m2">>) : x \in MarkNested(w, <<"m1">>)} : w \in TakeN(MarkNested(v, <<"m2">>), 2)}, 2)
StepMenu == {AttrStep("a"), AttrStep("b"), AttrStep("c"), IdxStep(NumV(0)), IdxStep(NumV(4)), IdxStep(NumV(8)), IdxStep(NumV(-4)),
             IdxStep(NumV(2)), IdxStep(StrV(<<"a">>)), IdxStep(StrV(<<"b">>)), IdxStep(StrV(<<"c">>)), IdxStep(Null(TNum)), IdxStep(BoolV(TRUE))}
Paths2 == SeqsUpTo(StepMenu, 2)
\* replacement targets: every non-root path not under a set, replaced by another value of the member's type
Alt(m) == IF m.st = "null" THEN {Unk(m.ty, NoRf)} ELSE {Null(m.ty)} \cup (IF m.ty.k = "number" THEN {NumV(12)} ELSE IF m.ty.k = "string" THEN {StrV(<<"z">>)} ELSE IF m.ty.k = "bool" THEN {BoolV(~(m.st = "k" /\ BoolOf(m)))} ELSE {})
Repls(v) == UNION {{[p |-> x.p, r |-> r] : r \in Alt(x.v)} : x \in {y \in VisitSet(v, <<>>) : y.p # <<>> /\ ~UnderSet(v, y.p)}}
BSeq == SetToSeq(Base)
Mine == SetToSeq({i \in 1..Len(BSeq) : i % ShardN = ShardI})
Line(b) == [vs |-> SetToSeq(Variants(b)), paths |-> SetToSeq(Paths2), repls |-> SetToSeq(Repls(b)), base |-> b]
ASSUME ndJsonSerialize(IOEnv.VOUT, [j \in 1..Len(Mine) |-> Line(BSeq[Mine[j]])])
ASSUME PrintT(<<"GEN", Len(Mine)>>)
VARIABLE x
Init == x = 0
Next == UNCHANGED x
=============================================================================
