----------------------------- MODULE FuncTrace ------------------------------
EXTENDS FuncCall, Json
Trace == ndJsonDeserialize(IOEnv.VTRACE)
VARIABLES l, cnt
Init == l = 1 /\ cnt = [events |-> 0, nontrivial |-> 0, implcalls |-> 0, shortcircuits |-> 0, argerrors |-> 0]
Next == /\ l <= Len(Trace)
        /\ LET e == Trace[l] IN
           /\ \A x \in CallFailedRules(e) \cup Reread(e) : PrintT(<<"VIOL", l, x>>)
           /\ cnt' = [cnt EXCEPT !.events = @ + 1, !.nontrivial = @ + (IF CallNontrivialF(e) THEN 1 ELSE 0),
                                 !.implcalls = @ + (IF ImplCbs(e) # {} THEN 1 ELSE 0),
                                 !.shortcircuits = @ + (IF e.out.ok /\ ImplCbs(e) = {} THEN 1 ELSE 0),
                                 !.argerrors = @ + (IF IsArgErr(e.out) THEN 1 ELSE 0)]
        /\ l' = l + 1
        /\ (l = Len(Trace) => PrintT(<<"DONE", l, cnt'>>))
=============================================================================
