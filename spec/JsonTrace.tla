------------------------------ MODULE JsonTrace -----------------------------
EXTENDS JsonDoc, Json
Trace == ndJsonDeserialize(IOEnv.VTRACE)
VARIABLES l, cnt
Init == l = 1 /\ cnt = [events |-> 0, nontrivial |-> 0, jm |-> 0, jd |-> 0, jx |-> 0]
Failed(e) == CASE e.ev = "jm" -> JmFailed(e) [] e.ev = "jd" -> JdFailed(e) [] e.ev = "jx" -> JxFailed(e)
Next == /\ l <= Len(Trace)
        /\ LET e == Trace[l] IN
           /\ \A x \in Failed(e) \cup Reread(e) : PrintT(<<"VIOL", l, x>>)
           /\ cnt' = [cnt EXCEPT !.events = @ + 1, ![e.ev] = @ + 1,
                                 !.nontrivial = @ + (IF (e.ev = "jm" /\ e.m.ok /\ e.ty # e.v.ty) \/ (e.ev = "jd" /\ e.um.ok /\ e.doc.j \in {"arr", "obj"}) THEN 1 ELSE 0)]
        /\ l' = l + 1
        /\ (l = Len(Trace) => PrintT(<<"DONE", l, cnt'>>))
=============================================================================
