----------------------------- MODULE ConvertGen -----------------------------
EXTENDS Convert, Json
ShardI == EnvInt("VSHARDI", 0)
ShardN == EnvInt("VSHARDN", 1)
FixedTargets == {TDyn, TStr, TNum, TBool, TList(TStr), TList(TNum), TList(TDyn), TSet(TDyn), TSet(TStr), TSet(TNum), TSet(TBool), TMap(TStr), TMap(TNum), TMap(TDyn),
   TTup(<<TStr, TStr>>), TTup(<<TDyn, TNum>>), TTup(<<TNum>>), TObj([a |-> TStr]), TObj([a |-> TNum, b |-> TStr]),
   TObjOpt([a |-> TStr, b |-> TNum], <<"b">>), TObjOpt([a |-> TDyn, c |-> TList(TStr)], <<"c">>), TObjOpt([a |-> TBool, b |-> TStr], <<"a", "b">>),
   TList(TList(TNum)), TList(TList(TStr)), TSet(TList(TStr)), TMap(TList(TStr)), TList(TSet(TStr)), TList(TMap(TStr)),
   TList(TObjOpt([a |-> TNum, b |-> TStr], <<"b">>)), TMap(TObjOpt([b |-> TNum, c |-> TObjOpt([a |-> TStr], <<"a">>)], <<"c">>)), TSet(TTup(<<TStr, TStr>>)),
   TObj([a |-> TList(TStr), b |-> TStr]), TObj([a |-> TObjOpt([b |-> TStr, c |-> TSet(TNum)], <<"c">>)]),
   TObj([a |-> TList(TObjOpt([a |-> TNum, b |-> TStr], <<"b">>))]),
   TObjOpt([a |-> TStr, c |-> TMap(TObjOpt([a |-> TNum, b |-> TStr], <<"b">>))], <<"c">>),
   TObjOpt([a |-> TNum, b |-> TSet(TObjOpt([a |-> TStr, c |-> TNum], <<"c">>))], <<"b">>),
   \* placeholders below the top of a collection element type
   TList(TList(TDyn)), TList(TObj([a |-> TDyn])), TSet(TList(TDyn)), TMap(TObj([a |-> TDyn])), TList(TTup(<<TDyn, TStr>>)), TSet(TObj([a |-> TDyn, b |-> TStr]))}
\* derived from the value's own type: the type itself and every single-position placeholder insertion
RECURSIVE DynAt(_)
DynAt(t) == {TDyn} \cup
  CASE t.k \in CollKinds -> {[t EXCEPT !.e = x] : x \in DynAt(t.e)}
    [] t.k = "tuple" -> UNION {{[t EXCEPT !.es[i] = x] : x \in DynAt(t.es[i])} : i \in 1..Len(t.es)}
    [] t.k = "object" -> UNION {{[t EXCEPT !.as[n] = x] : x \in DynAt(t.as[n])} : n \in DOMAIN t.as}
    [] OTHER -> {}
Targets(t) == FixedTargets \cup {t} \cup DynAt(t)
TupSrc == {TMap(TList(TNum)), TMap(TObj([a |-> TNum])), TList(TMap(TNum)), TTup(<<TList(TNum), TList(TNum)>>), TTup(<<TObj([a |-> TStr])>>), TTup(<<TObj([a |-> TNum]), TObj([a |-> TNum])>>), TTup(<<TTup(<<TNum, TStr>>)>>),
           \* tuples / objects whose members mix a collection kind with its structural look-alike (lists with tuples, maps with objects)
           TTup(<<TList(TStr), TTup(<<TStr, TStr>>)>>), TTup(<<TTup(<<TNum>>), TList(TNum)>>), TTup(<<TMap(TStr), TObj([a |-> TStr])>>),
           TObj([a |-> TMap(TNum), b |-> TObj([a |-> TNum])]),
           TTup(<<TList(TStr), TTup(<<TStr, TStr>>), TDyn>>), TTup(<<TNum, TStr, TBool>>), TTup(<<TStr, TStr, TNum>>), TTup(<<TNum, TStr, TStr>>), TTup(<<TDyn, TNum>>), TObj([a |-> TDyn, b |-> TStr])}
SrcTypes == (IF Thorough THEN VT \cup {TList(TDyn), TTup(<<TDyn>>)} ELSE PrimTypes \cup VT1 \cup TakeN(VT2, 8)) \cup TupSrc
\* values: known / null, typed unknowns (refined), nested unknown / null / marked members, DynamicVal, typed-dynamic null
ValsOf(t) == TakeN(AllVals(t), IF Thorough THEN 16 ELSE 8) \cup UnkVals(t)
             \cup UNION {TakeN(Weak1(v, TRUE), 2) : v \in TakeN(Vals(t, W), 3)}
             \cup UNION {TakeN(MarkPlacements(v), 3) : v \in TakeN(Vals(t, W), 2)}
             \cup {WithMk(Null(t), <<"m1">>), WithMk(Unk(t, NoRf), <<"m2">>)}
CandsOf(v) == IF v.st = "unk" /\ v.ty.k # "dynamic" THEN TakeN({c \in AllVals(v.ty) : Admits(UnmarkDeep(v), c)}, 6) ELSE {}
Lm(n) == K(TNum, [lm |-> n])
Extra == {Lm("almost1"), Lm("almost3"), Lm("malmost1"), Lm("third"), Lm("u64max"), Lm("f64intp"), Lm("e30"), NumV(-10), NumV(3), NumV(401),
          SeqV(TList(TNum), <<Lm("almost1"), NumV(4)>>), MapV(TObj([a |-> TNum, b |-> TStr]), [a |-> Lm("malmost1"), b |-> StrV(<<"x">>)]),
          DynVal, Null(TDyn), K(TNum, [lm |-> "tenth"]), StrV(<<"1">>), StrV(<<"t", "r", "u", "e">>), StrV(<<"1", ".", "5">>), StrV(<<"x">>)}
TSeq == SetToSeq(SrcTypes)
Mine == SetToSeq({i \in 1..Len(TSeq) : i % ShardN = ShardI})
Line(t) == [vals |-> [i \in 1..Len(SetToSeq(ValsOf(t))) |-> [v |-> SetToSeq(ValsOf(t))[i], cands |-> SetToSeq(CandsOf(SetToSeq(ValsOf(t))[i]))]],
            targets |-> SetToSeq(Targets(t))]
ExtraLine == [vals |-> [i \in 1..Len(SetToSeq(Extra)) |-> [v |-> SetToSeq(Extra)[i], cands |-> <<>>]], targets |-> SetToSeq(FixedTargets)]
\* unknown collections whose admitted members coalesce or collide under the element conversion
S1 == StrV(<<"1">>)  STrue == StrV(<<"t", "r", "u", "e">>)  S10 == StrV(<<"1", ".", "0">>)
CoalesceCands == {SeqV(TSet(TStr), <<S1, STrue>>), SeqV(TSet(TStr), <<S1, S10>>), SeqV(TSet(TStr), <<S1>>), SeqV(TSet(TStr), <<S1, S10, STrue>>)}
ListCands == {SeqV(TList(TStr), <<S1, S1>>), SeqV(TList(TStr), <<S1, S10>>), SeqV(TList(TStr), <<S1, STrue, S1>>)}
CoalesceUnks(t, C) == {u \in {Unk(t, [null |-> "F", minLen |-> 2]), Unk(t, [null |-> "U", minLen |-> 2, maxLen |-> 3]), Unk(t, [null |-> "F", minLen |-> 1]),
                              Unk(t, [null |-> "F", minLen |-> 3, maxLen |-> 3]), Unk(t, [null |-> "F", minLen |-> 2, maxLen |-> 2])} : TRUE}
CoalesceLine(t, C) == [vals |-> [i \in 1..Len(SetToSeq(CoalesceUnks(t, C))) |->
                                   LET u == SetToSeq(CoalesceUnks(t, C))[i] IN [v |-> u, cands |-> SetToSeq({c \in C : Admits(u, c)})]],
                       targets |-> <<TSet(TBool), TSet(TNum), TList(TBool), TList(TNum), TSet(TStr), TList(TStr), TSet(TDyn)>>]
ASSUME ndJsonSerialize(IOEnv.VOUT, [j \in 1..Len(Mine) |-> Line(TSeq[Mine[j]])] \o (IF ShardI = 0 THEN <<ExtraLine, CoalesceLine(TSet(TStr), CoalesceCands), CoalesceLine(TList(TStr), ListCands)>> ELSE <<>>))
ASSUME PrintT(<<"GEN", Len(Mine)>>)
VARIABLE x
Init == x = 0
Next == UNCHANGED x
=============================================================================
