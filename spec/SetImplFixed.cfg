SPECIFICATION ISpec
INVARIANTS NeverBroken
VIEW IView
CHECK_DEADLOCK FALSE
