------------------------------- MODULE C13Gen -------------------------------
(* Wholly known argument lists for the collection / set / sequence functions,  *)
(* shaped for each function's documented domain and its edges (negative,       *)
(* fractional, out-of-range and infinite indices, empty collections, nulls,    *)
(* duplicates, list vs tuple and map vs object forms).                         *)
EXTENDS StdlibRef, Json
Fn == IOEnv.VFN
Mode == Env("VMODE", "call")
LT == {TList(TNum), TList(TStr), TList(TList(TNum)), TList(TBool), TList(TObj([a |-> TStr, b |-> TNum]))}
TT == {TTup(<<TNum, TStr>>), TTup(<<>>), TTup(<<TBool>>), TTup(<<TList(TStr), TNum>>)}
MT == {TMap(TNum), TMap(TStr), TMap(TList(TStr))}
OT == {TObj([a |-> TNum, b |-> TStr]), TObj([a |-> TBool]), TObj(<<>>)}
ST == {TSet(TNum), TSet(TStr), TSet(TTup(<<TNum, TStr>>))}
VOf(S) == UNION {Vals(t, W) : t \in S}
Lists == VOf(LT) \cup {SeqV(TList(TNum), <<NumV(0), NumV(4), NumV(8)>>), SeqV(TList(TStr), <<StrV(<<"b">>), StrV(<<"a">>), StrV(<<"b">>)>>),
                       SeqV(TList(TNum), <<NumV(4), NumV(4), NumV(0), NumV(4)>>), SeqV(TList(TStr), <<StrV(<<>>), Null(TStr), StrV(<<"a">>)>>)}
Tuples == VOf(TT)
Idx == {NumV(q) : q \in {-12, -8, -4, 0, 2, 4, 8, 12, 16}} \cup {K(TNum, PInf)}
Keys1 == {StrV(<<"a">>), StrV(<<"b">>), StrV(<<"c">>)}
StrLists == Vals(TList(TStr), W) \cup {SeqV(TList(TStr), <<StrV(<<"b">>), StrV(<<"a">>), StrV(<<"b">>)>>), SeqV(TList(TStr), <<StrV(<<"a", "b">>), StrV(<<"a">>), StrV(<<>>)>>),
              SeqV(TList(TStr), <<StrV(<<"b">>), Null(TStr)>>), SeqV(TList(TStr), <<StrV(<<"A", "b">>), StrV(<<"1", "0">>), StrV(<<"1">>), StrV(<<" ", "a">>)>>)}
KeyLists == {SeqV(TList(TStr), s) : s \in SeqsUpTo(Keys1, 2)} \cup {SeqV(TList(TStr), <<StrV(<<"a">>), StrV(<<"a">>)>>)}
SameTy(S) == {p \in S \X S : TEquals(p[1].ty, p[2].ty)}
\* different numbers that agree in their leading digits, and one number given twice (membership and duplicate tests are by value)
D(s) == K(TNum, [dec |-> s])
CloseLists == {SeqV(TList(TNum), s) : s \in {<<D("1700000000001"), D("1700000000002")>>, <<D("1700000000001"), D("1700000000002"), D("1700000000001")>>,
                                             <<D("100000000001/100000000000"), D("100000000002/100000000000"), NumV(4)>>, <<D("12345678901"), D("12345678902"), D("12345678901")>>,
                                             <<K(TNum, [lm |-> "u64max"]), K(TNum, [lm |-> "u64maxp"]), K(TNum, [lm |-> "u64maxpp"]), K(TNum, [lm |-> "u64maxp"])>>}}
CloseSets == {SeqV(TSet(TNum), s) : s \in {<<D("1700000000001"), D("1700000000002")>>, <<D("1700000000001")>>, <<D("12345678901"), D("12345678902")>>, <<K(TNum, [lm |-> "u64maxp"]), K(TNum, [lm |-> "u64maxpp"])>>}}
ArgLists0 ==
  CASE Fn = "length" -> {<<v>> : v \in Lists \cup Tuples \cup VOf(MT) \cup VOf(ST)}
    [] Fn = "element" -> {<<v, i>> : v \in TakeN(Lists, 40) \cup Tuples, i \in Idx}
    [] Fn \in {"index", "hasindex"} -> {<<v, i>> : v \in TakeN(Lists, 25) \cup TakeN(Tuples, 12), i \in Idx \cup {StrV(<<"a">>)}}
                                       \cup {<<v, k>> : v \in TakeN(VOf(MT), 30), k \in Keys1 \cup {NumV(0)}}
    [] Fn = "lookup" -> {<<m, k, d>> : m \in TakeN(VOf({TMap(TNum)}), 20), k \in Keys1, d \in {NumV(12), Null(TNum)}}
                        \cup {<<m, k, d>> : m \in TakeN(VOf({TMap(TStr)}), 12), k \in Keys1, d \in {StrV(<<"z">>)}}
                        \cup {<<m, k, d>> : m \in TakeN(VOf(OT), 16), k \in Keys1, d \in {NumV(12), StrV(<<"z">>)}}
    [] Fn = "contains" -> UNION {{<<v, x>> : x \in Members_(v.ty.e, W) \cup {Null(v.ty.e)}} : v \in TakeN(Lists, 40) \cup TakeN(VOf(ST), 25)}
    [] Fn \in {"keys", "values"} -> {<<m>> : m \in VOf(MT) \cup VOf(OT)}
    [] Fn = "merge" -> {<<x>> : x \in TakeN(VOf(MT), 10) \cup TakeN(VOf(OT), 8)}
                       \cup {<<p[1], p[2]>> : p \in SameTy(TakeN(VOf(MT), 24) \cup TakeN(VOf(OT), 14))}
                       \cup {<<p[1], p[2], p[1]>> : p \in SameTy(TakeN(VOf({TMap(TNum)}), 8))}
    [] Fn = "concat" -> {<<x, y>> : x \in TakeN(Vals(TList(TStr), W), 4) \cup {SeqV(TList(TBool), <<>>), SeqV(TList(TBool), <<BoolV(TRUE)>>)}, y \in TakeN(Vals(TList(TNum), W), 4) \cup {SeqV(TList(TStr), <<>>)}}
                        \cup {<<y, x>> : x \in TakeN(Vals(TList(TStr), W), 3), y \in TakeN(Vals(TList(TNum), W), 3)}
                        \cup {<<x>> : x \in TakeN(Lists, 10)} \cup {<<p[1], p[2]>> : p \in SameTy(TakeN(Lists, 30))}
                        \cup {<<x, y>> : x \in TakeN(Tuples, 8), y \in TakeN(Tuples, 8)} \cup {<<x, y, x>> : x \in TakeN(Tuples, 4), y \in TakeN(Tuples, 4)}
    [] Fn = "slice" -> {<<v, i, j>> : v \in TakeN(Lists, 14) \cup TakeN(Tuples, 8), i \in Idx, j \in Idx}
    [] Fn = "chunklist" -> {<<v, i>> : v \in TakeN(Lists, 40), i \in Idx}
    [] Fn \in {"distinct", "reverselist"} -> {<<v>> : v \in Lists \cup (IF Fn = "reverselist" THEN Tuples ELSE {})}
    [] Fn \in {"compact", "sort"} -> {<<v>> : v \in StrLists}
    [] Fn = "zipmap" -> {<<k, v>> : k \in KeyLists, v \in TakeN(Lists, 20) \cup Tuples}
    [] Fn = "range" -> {<<NumV(q)>> : q \in {4096, 4100, -4096, -4100, 4092, 4094}}      \* around the documented 1024-value limit
                       \cup {<<NumV(0), NumV(2048), NumV(2)>>, <<NumV(8192), NumV(0), NumV(-8)>>, <<NumV(4), NumV(4100)>>, <<NumV(4), NumV(4104)>>, <<NumV(0), NumV(2050), NumV(2)>>}
                       \cup {<<i>> : i \in Idx} \cup {<<i, j>> : i \in Idx, j \in Idx} \cup {<<i, j, s>> : i \in Idx, j \in Idx, s \in Idx}
    [] Fn = "coalesce" -> {<<x, y>> : x \in {Null(TStr), StrV(<<"a">>), Null(TNum), NumV(4), NumV(6), Null(TBool), BoolV(TRUE), Null(TList(TStr))},
                                           y \in {Null(TStr), StrV(<<"a">>), Null(TNum), NumV(4), NumV(-2), BoolV(FALSE), Null(TBool), SeqV(TList(TStr), <<>>)}}
                          \cup {<<Null(TStr), Null(TNum), NumV(8)>>, <<Null(TNum), Null(TNum), StrV(<<"b">>)>>, <<Null(TBool), NumV(4), StrV(<<"b">>)>>}
                          \cup UNION {SeqsUpTo(TakeN(AllVals(t), 4) \cup {Null(t)}, 3) \ {<<>>} : t \in {TNum, TStr, TList(TNum)}}
    [] Fn = "coalescelist" -> UNION {SeqsUpTo(TakeN(Vals(t, W), 4), 3) \ {<<>>} : t \in {TList(TNum), TList(TStr), TTup(<<>>)}}
                              \cup {<<x, y>> : x \in TakeN(Tuples, 6), y \in TakeN(Tuples, 6)}
    [] Fn \in {"setunion", "setintersection", "setsymmetricdifference"} ->
          UNION {SeqsUpTo(TakeN(Vals(t, W), 6), 3) \ {<<>>} : t \in ST}
    [] Fn = "setsubtract" -> UNION {{<<x, y>> : x \in TakeN(Vals(t, W), 8), y \in TakeN(Vals(t, W), 8)} : t \in ST}
    [] Fn = "flatten" -> {<<v>> : v \in VOf({TList(TList(TNum)), TList(TSet(TStr)), TSet(TList(TNum)), TTup(<<TList(TStr), TNum>>), TSet(TTup(<<TNum, TStr>>)), TList(TNum), TTup(<<>>),
                                                 TList(TObj([a |-> TNum])), TMap(TNum), TTup(<<TNum, TStr>>)})}
                         \cup {<<SeqV(TTup(<<TSet(TStr), TList(TList(TNum)), TNum>>), <<SeqV(TSet(TStr), <<StrV(<<"a">>)>>), SeqV(TList(TList(TNum)), <<SeqV(TList(TNum), <<NumV(4), NumV(8)>>), SeqV(TList(TNum), <<>>)>>), NumV(0)>>)>>,
                               <<SeqV(TList(TSet(TList(TNum))), <<SeqV(TSet(TList(TNum)), <<SeqV(TList(TNum), <<NumV(4)>>)>>)>>)>>}
    [] Fn = "setproduct" ->
          LET P == {SeqV(TList(TStr), <<StrV(<<"a">>), StrV(<<"b">>)>>), SeqV(TList(TStr), <<StrV(<<"c">>)>>), SeqV(TList(TNum), <<NumV(0), NumV(4)>>), SeqV(TList(TNum), <<>>),
                    SeqV(TSet(TStr), <<StrV(<<"a">>), StrV(<<"b">>)>>), SeqV(TList(TBool), <<BoolV(TRUE), BoolV(FALSE)>>), SeqV(TList(TStr), <<StrV(<<"b">>), StrV(<<"a">>), StrV(<<"c">>)>>)}
              L == {p \in P : p.ty.k = "list" /\ Len(Elems(p)) > 0}
          IN {<<x, y>> : x \in P, y \in P} \cup {<<x, y, z>> : x \in L, y \in P, z \in L}
             \cup {<<w, x, y, z>> : w \in TakeN(L, 3), x \in TakeN(L, 3), y \in TakeN(P, 5), z \in L}
             \cup {<<v, w, x, y, z>> : v \in TakeN(L, 2), w \in TakeN(L, 2), x \in TakeN(L, 2), y \in TakeN(L, 3), z \in TakeN(L, 3)}
    [] Fn = "sethaselement" -> UNION {{<<s, x>> : s \in Vals(t, W), x \in Members_(t.e, W)} : t \in ST}
    [] OTHER -> {}
ArgLists == ArgLists0 \cup
  CASE Fn = "distinct" -> {<<v>> : v \in CloseLists}
    [] Fn = "contains" -> {<<v, x>> : v \in CloseLists \cup CloseSets, x \in {D("1700000000002"), D("1700000000003"), D("12345678902"), K(TNum, [lm |-> "u64maxpp"])}}
    [] Fn \in {"setunion", "setintersection", "setsymmetricdifference", "setsubtract"} -> {<<x, y>> : x \in CloseSets, y \in CloseSets}
    [] Fn = "sethaselement" -> {<<s, x>> : s \in CloseSets, x \in {D("1700000000002"), D("1700000000003"), K(TNum, [lm |-> "u64maxp"])}}
    [] OTHER -> {}
TW(Ws) == {w \in Ws : TypedUnknowns(w)}
WeakOfArgs(a) == UNION {{[a EXCEPT ![i] = w] : w \in (IF Thorough THEN TW(Weak1(a[i], FALSE)) ELSE TakeN(TW(Weak1(a[i], FALSE)), 5) \cup TakeN(TW(Weak1(a[i], TRUE)), 4))} : i \in 1..Len(a)}
\* bases for weakening: argument lists on which the reference says the call succeeds
OkLists == {a \in ArgLists : LET r == SRef(Fn, a) IN ~Has(r, "undef") /\ r.ok}
\* (weakening menus order numbers: opaque decimals take part in single calls only)
RankedLists(S) == {a \in S : \A i \in 1..Len(a) : Ranked(a[i])}
WBase == IF Thorough THEN RankedLists(OkLists) ELSE TakeN(RankedLists(OkLists), 150)
\* C11 injections on domain-shaped lists: a nested unknown / a whole unknown / a null argument at one position
InjectAll(a) == UNION {{[a EXCEPT ![i] = w] : w \in TakeN(Weak1(a[i], TRUE) \ UnkMenuLite(a[i]), 3) \cup {Unk(a[i].ty, NoRf), Null(a[i].ty), DynVal}} : i \in 1..Len(a)}
IBase == RankedLists(IF Thorough THEN ArgLists ELSE TakeN(OkLists, 80) \cup TakeN(ArgLists, 40))
ASSUME LET sq == SetToSeq(IF Mode = "weak" THEN WBase ELSE IF Mode = "inject" THEN UNION {InjectAll(a) : a \in IBase} ELSE ArgLists) IN
       ndJsonSerialize(IOEnv.VOUT, [i \in 1..Len(sq) |-> [k |-> IF Mode = "inject" THEN "call" ELSE Mode, api |-> "fn:" \o Fn, xs |-> <<[none |-> TRUE]>>, a |-> sq[i],
                                                            vs |-> IF Mode = "weak" THEN SetToSeq(WeakOfArgs(sq[i])) ELSE <<>>]])
       /\ PrintT(<<"GEN", Len(sq)>>)
VARIABLE x
Init == x = 0
Next == UNCHANGED x
=============================================================================
