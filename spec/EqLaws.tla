------------------------------- MODULE EqLaws -------------------------------
(* C03 (first half): raw equality is an equivalence; Equals is symmetric,      *)
(* treats nulls as equal, agrees with raw equality on wholly known values of   *)
(* the same type, forms a trichotomy with < and > on numbers; equal values     *)
(* hash alike.  Judged on complete observed relations: one "eqgroup" event     *)
(* carries n physical values of one type and the n x n matrices of            *)
(* RawEquals / Equals / same-hash / LessThan / GreaterThan results.            *)
(* SetVal construction: every permutation of the inputs gives the same set     *)
(* (members and iteration order), without equal members.                       *)
EXTENDS Values

N(e) == Len(e.vals)
SameBinaryNoneHolds(e, i, j) == Has(e, "sb") /\ e.sb[i][j] /\ i # j /\ e.vals[i].st = "k" /\ e.vals[j].st = "k"
                                /\ e.eq[i][j] = "F" /\ e.lt[i][j] = "F" /\ e.gt[i][j] = "F"
EqGroupFailed(e) ==
  LET n == N(e) I == 1..n IN
  {x \in {"C03.RawReflexive", "C03.RawSymmetric", "C03.RawTransitive", "C03.SameAbstractIsEqual", "C03.EqualsSymmetric",
          "C03.NullsEqual", "C03.EqualsIffRaw", "C03.Trichotomy", "C03.Trichotomy.EqualBinaryValueUnequalText", "C03.EqImpliesSameHash", "C03.NoPanic"} :
    CASE x = "C03.RawReflexive" -> \E i \in I : ~e.raw[i][i]
      [] x = "C03.RawSymmetric" -> \E i, j \in I : e.raw[i][j] # e.raw[j][i]
      [] x = "C03.RawTransitive" -> \E i, j \in I : e.raw[i][j] /\ \E k \in I : e.raw[j][k] /\ ~e.raw[i][k]
      \* (src: physical values built from one abstract string through different input spellings are the same abstract value)
      [] x = "C03.SameAbstractIsEqual" -> \E i, j \in I : (e.vals[i] = e.vals[j] \/ (Has(e, "src") /\ e.src[i] = e.src[j] /\ e.vals[i].ty.k # "number")) /\ ~e.raw[i][j] /\ ~SameBinaryNoneHolds(e, i, j)
      [] x = "C03.EqualsSymmetric" -> \E i, j \in I : e.eq[i][j] # e.eq[j][i]
      [] x = "C03.NullsEqual" -> \E i, j \in I : e.vals[i].st = "null" /\ e.vals[j].st = "null" /\ e.eq[i][j] # "T"
      [] x = "C03.EqualsIffRaw" -> \E i, j \in I : WhollyKnown(e.vals[i]) /\ WhollyKnown(e.vals[j]) /\ TEquals(e.vals[i].ty, e.vals[j].ty)
                                                   /\ e.eq[i][j] # (IF e.raw[i][j] THEN "T" ELSE "F")
      [] x = "C03.Trichotomy" -> \E i, j \in I : e.vals[i].ty.k = "number" /\ e.vals[i].st = "k" /\ e.vals[j].ty.k = "number" /\ e.vals[j].st = "k"
                                                 /\ Cardinality({y \in {"eq", "lt", "gt"} : e[y][i][j] = "T"}) # 1 /\ ~SameBinaryNoneHolds(e, i, j)
      \* the same binary value held at two precisions whose shortest decimal texts differ: neither equal nor ordered (recorded finding)
      [] x = "C03.Trichotomy.EqualBinaryValueUnequalText" -> \E i, j \in I : SameBinaryNoneHolds(e, i, j)
      [] x = "C03.EqImpliesSameHash" -> \E i, j \in I : e.raw[i][j] /\ ~e.hash[i][j]
      [] x = "C03.NoPanic" -> \E i, j \in I : e.eq[i][j] = "P" \/ (e.vals[i].ty.k = "number" /\ e.vals[i].st = "k" /\ e.vals[j].ty.k = "number" /\ e.vals[j].st = "k" /\ (e.lt[i][j] = "P" \/ e.gt[i][j] = "P"))}

\* number of distinct abstract values among a sequence of wholly known values
Distinct(vs) == Cardinality({Canon(vs[i]) : i \in 1..Len(vs)})
SetPermFailed(e) ==
  (IF Len(e.results) = 1 THEN {} ELSE {"C03.SetIndependentOfInsertionOrder"})
  \* (orders: how many iteration orders were seen when members are told apart physically - text and precision of each number -
  \*  over every permutation and repetition; the projection cannot tell tied members apart)
  \cup (IF Has(e, "orders") /\ e.orders # 1 THEN {"C03.SetIndependentOfInsertionOrder"} ELSE {})
  \* (tied: inputs with one binary value at two precisions - equal rationals, unequal for cty, see the recorded trichotomy finding -
  \*  so how many members the set holds is not judged there; its iteration order still is)
  \cup (IF Has(e, "tied") \/ \A k \in 1..Len(e.results) : e.results[k].ok /\ Len(Elems(e.results[k].val)) = Distinct(e.input) THEN {} ELSE {"C03.SetHoldsDistinctInputs"})
  \* (tied inputs: the set rightly holds two members that the abstract universe identifies, so "no two equal members" is not judged there)
  \cup (IF Has(e, "tied") \/ \A k \in 1..Len(e.results) : e.results[k].ok => WellFormed(e.results[k].val) THEN {} ELSE {"C06.WellFormed"})
  \cup (IF \A k \in 1..Len(e.results) : e.results[k].ok =>
            \A i \in 1..Len(e.input) : \E m \in 1..Len(Elems(e.results[k].val)) : AbsEq(Elems(e.results[k].val)[m], e.input[i])
        THEN {} ELSE {"C03.SetHoldsDistinctInputs"})
=============================================================================
