----------------------------- MODULE UnifyTrace -----------------------------
EXTENDS Unify, Json
Trace == ndJsonDeserialize(IOEnv.VTRACE)
VARIABLES l, cnt
Init == l = 1 /\ cnt = [events |-> 0, nontrivial |-> 0, unified |-> 0]
Next == /\ l <= Len(Trace)
        /\ LET e == Trace[l] IN
           /\ \A x \in UnifyFailed(e) : PrintT(<<"VIOL", l, x>>)
           /\ cnt' = [cnt EXCEPT !.events = @ + 1, !.nontrivial = @ + (IF UnifyNontrivial(e) THEN 1 ELSE 0), !.unified = @ + (IF e.r.ok THEN 1 ELSE 0)]
        /\ l' = l + 1
        /\ (l = Len(Trace) => PrintT(<<"DONE", l, cnt'>>))
=============================================================================
