------------------------------ MODULE FuncCall ------------------------------
(***************************************************************************)
(* The function-call protocol of cty/function: what Call, ReturnType and   *)
(* ReturnTypeForValues may do for a given specification and argument list. *)
(* A specification is                                                      *)
(*   [ps  : sequence of parameters, var : parameter or [none |-> TRUE],    *)
(*     tcb : behaviour of the type-check callback  (okT, okDyn, err, panic) *)
(*     icb : behaviour of the implementation       (conf, nonconf, err,    *)
(*                                                  panic, unknown)        *)
(*     rr  : TRUE when RefineResult declares the result not-null ]         *)
(* A parameter is [ty, an, au, ad, am] (type constraint, allow null /      *)
(* unknown / dynamic type / marked).  The observed run is the sequence of  *)
(* callback invocations (with the arguments each callback saw) followed by *)
(* the outcome; the protocol is the automaton                              *)
(*     start -> [typecb] -> [implcb] -> return                             *)
(* with the guards below.   [C10]                                          *)
(***************************************************************************)
EXTENDS Values

NoParam == [none |-> TRUE]
IsParam(p) == ~Has(p, "none")
NPos(s) == Len(s.ps)
ParamOf(s, i) == IF i <= NPos(s) THEN s.ps[i] ELSE s.var
CountOK(s, args) == IF IsParam(s.var) THEN Len(args) >= NPos(s) ELSE Len(args) = NPos(s)

IsDynTyped(v) == v.ty.k = "dynamic"
Offends(p, v) == (v.st = "null" /\ ~p.an) \/ (~IsDynTyped(v) /\ ~Conforms(v.ty, p.ty))
DynBlocked(p, v) == IsDynTyped(v) /\ ~p.ad /\ ~(v.st = "null" /\ ~p.an)
Offenders(s, args) == {i \in 1..Len(args) : Offends(ParamOf(s, i), args[i])}
Blocked(s, args) == {i \in 1..Len(args) : DynBlocked(ParamOf(s, i), args[i])}
\* what a callback is entitled to see for argument i
Seen(s, args, i) == IF ParamOf(s, i).am THEN args[i] ELSE UnmarkDeep(args[i])
SeenAll(s, args) == [i \in 1..Len(args) |-> Seen(s, args, i)]
MustCarry(s, args) == UNION {MarksIn(args[i]) : i \in {j \in 1..Len(args) : ~ParamOf(s, j).am}}
UnknownStops(s, args) == \E i \in 1..Len(args) : args[i].st = "unk" /\ ~ParamOf(s, i).au

\* derived functions: wrap = "redesc" (WithNewDescriptions) and "proxy" (Proxy) keep the whole contract; "unpred"
\* (Unpredictable) keeps arguments and type checking but stands in an implementation that answers unknown
Wrap(s) == IF Has(s, "wrap") THEN s.wrap ELSE "none"
\* the type the type-check callback answers, and what the implementation returns
TcbType(s) == IF s.tcb = "okDyn" THEN TDyn ELSE TStr
ImplValue(s) == CASE Wrap(s) = "unpred" -> Unk(TcbType(s), NoRf)
                  [] s.icb = "conf" -> StrV(<<"r">>)
                  [] s.icb = "nonconf" -> IF s.tcb = "okDyn" THEN StrV(<<"r">>) ELSE NumV(4)
                  [] s.icb = "unknown" -> Unk(TStr, NoRf)
                  [] OTHER -> StrV(<<"r">>)
ImplConforms(s) == Conforms(ImplValue(s).ty, TcbType(s))
Icb(s) == IF Wrap(s) = "unpred" THEN "unknown" ELSE s.icb

\* the contract an argument list handed to the implementation must satisfy
ArgOKForImpl(p, v) ==
  /\ (IsDynTyped(v) => p.ad) /\ (~IsDynTyped(v) => Conforms(v.ty, p.ty))
  /\ (v.st = "null" => p.an) /\ (v.st = "unk" => p.au)
  /\ (MarksIn(v) # {} => p.am)
ArgOKForType(p, v) ==
  /\ (IsDynTyped(v) => p.ad) /\ (~IsDynTyped(v) => Conforms(v.ty, p.ty))
  /\ (v.st = "null" => p.an)
  /\ (MarksIn(v) # {} => p.am)

IsArgErr(out) == ~out.ok /\ Has(out, "idx")
\* what the declared RefineResult states: "notnull" (b.NotNull()) or "null" (b.Null(): an unknown result collapses to the known null of its type)
RrKind(s) == IF Has(s, "rrk") THEN s.rrk ELSE "notnull"
Refined(s, v) == s.rr => (IF RrKind(s) = "null" THEN (v.ty.k # "dynamic" /\ v.st # "k" => v.st = "null")
                          ELSE ((v.st = "unk" /\ v.ty.k # "dynamic") => v.rf.null = "F"))

(***************************************************************************)
(* Rules over one observed call e = [spec, args, cbs, out, rt, rtt].       *)
(***************************************************************************)
TypeCbs(e) == {i \in 1..Len(e.cbs) : e.cbs[i].cb = "type"}
ImplCbs(e) == {i \in 1..Len(e.cbs) : e.cbs[i].cb = "impl"}

CallFailedRules(e) ==
  LET s == e.spec  args == e.args  out == e.out
      off == Offenders(s, args)  blk == Blocked(s, args)
      countok == CountOK(s, args)
      clean == countok /\ off = {} /\ blk = {}
      T == TcbType(s)
  IN
  \* the protocol automaton: at most one type callback, at most one impl callback, in that order
  (IF Cardinality(TypeCbs(e)) <= 1 /\ Cardinality(ImplCbs(e)) <= 1 /\ (\A i \in ImplCbs(e) : \E j \in TypeCbs(e) : j < i) THEN {} ELSE {"C10.ImplOnlyAfterTypeOk"})
  \cup (IF ImplCbs(e) # {} /\ (s.tcb \in {"err", "panic"}) THEN {"C10.ImplOnlyAfterTypeOk"} ELSE {})
  \cup (IF \A i \in ImplCbs(e) : \E j \in TypeCbs(e) : e.cbs[j].args = e.cbs[i].args THEN {} ELSE {"C10.ImplSeesTypeCheckedArgs"})
  \* what the callbacks were given
  \cup (IF \A i \in ImplCbs(e) : countok /\ Len(e.cbs[i].args) = Len(args) /\ \A k \in 1..Len(args) : ArgOKForImpl(ParamOf(s, k), e.cbs[i].args[k])
        THEN {} ELSE {"C10.ImplArgsSatisfyContract"})
  \cup (IF \A i \in TypeCbs(e) : countok /\ Len(e.cbs[i].args) = Len(args) /\ \A k \in 1..Len(args) : ArgOKForType(ParamOf(s, k), e.cbs[i].args[k])
        THEN {} ELSE {"C10.TypeArgsSatisfyContract"})
  \cup (IF \A i \in 1..Len(e.cbs) : countok => e.cbs[i].args = SeenAll(s, args) THEN {} ELSE {"C10.CallbackSeesGivenArgs"})
  \cup (IF \A i \in ImplCbs(e) : e.cbs[i].ty = T THEN {} ELSE {"C10.ImplGetsCheckedType"})
  \* outcomes
  \cup (IF out.ok \/ out.fail # "panic" THEN {} ELSE {"C10.PanicsBecomeErrors"})
  \cup (IF ~countok /\ (out.ok \/ e.cbs # <<>>) THEN {"C10.CountChecked"} ELSE {})
  \cup (IF countok /\ ~clean THEN
          (IF e.cbs # <<>> THEN {"C10.NoCallbackOnOffendingArgs"} ELSE {})
          \cup (IF out.ok THEN (IF blk # {} /\ out.val.st = "unk" /\ out.val.ty.k = "dynamic" THEN {} ELSE {"C10.OffenderRejected"})
                ELSE IF IsArgErr(out) THEN (IF out.idx + 1 \in off THEN {} ELSE {"C10.ErrorNamesOffender"})
                ELSE (IF off # {} THEN {"C10.ErrorNamesOffender"} ELSE {"C10.OffenderRejected"}))
          \cup (IF out.ok /\ ~(MustCarry(s, args) \subseteq MarksIn(out.val)) THEN {"C10.ShortCircuitCarriesMarks"} ELSE {})
        ELSE {})
  \cup (IF clean THEN
          (IF TypeCbs(e) = {} THEN {"C10.TypeCallbackRuns"} ELSE {})
          \cup (IF s.tcb \in {"err", "panic"} THEN (IF out.ok THEN {"C10.TypeErrorPropagates"} ELSE {})
                ELSE IF UnknownStops(s, args) THEN
                   (IF ImplCbs(e) # {} THEN {"C10.UnknownShortCircuits"} ELSE {})
                   \cup (IF out.ok /\ TEquals(out.val.ty, T) /\ (out.val.st = "unk" \/ (s.rr /\ RrKind(s) = "null" /\ out.val.st = "null" /\ T.k # "dynamic"))
                         THEN {} ELSE {"C10.UnknownShortCircuits"})
                   \cup (IF out.ok /\ ~(MustCarry(s, args) \subseteq MarksIn(out.val)) THEN {"C10.ShortCircuitCarriesMarks"} ELSE {})
                   \cup (IF out.ok /\ ~Refined(s, out.val) THEN {"C10.RefineApplied"} ELSE {})
                ELSE
                   (IF Wrap(s) = "unpred" THEN (IF ImplCbs(e) # {} THEN {"C10.UnpredictableSkipsImpl"} ELSE {})
                    ELSE IF ImplCbs(e) = {} THEN {"C10.ImplRuns"} ELSE {})
                   \cup (IF Icb(s) \in {"err", "panic"} THEN (IF out.ok THEN {"C10.ImplErrorPropagates"} ELSE {})
                         ELSE IF ~ImplConforms(s) THEN (IF out.ok THEN {"C10.NeverReturnsNonConforming"} ELSE {})
                         ELSE (IF out.ok /\ UnmarkDeep(out.val).ty = ImplValue(s).ty
                                  /\ (ImplValue(s).st = "k" => UnmarkDeep(out.val) = ImplValue(s))
                                  /\ MustCarry(s, args) \subseteq MarksIn(out.val)
                                  /\ MarksIn(out.val) \subseteq UNION {MarksIn(args[i]) : i \in 1..Len(args)}
                               THEN {} ELSE {"C10.ResultIsImplResultWithMarks"})
                              \cup (IF out.ok /\ ~Refined(s, out.val) THEN {"C10.RefineApplied"} ELSE {})))
        ELSE {})
  \cup (IF out.ok /\ ~WellFormed(out.val) THEN {"C06.WellFormed"} ELSE {})
  \* ReturnTypeForValues: the first phase only
  \cup (IF ~countok THEN (IF e.rt.ok THEN {"C10.ReturnTypeAgrees"} ELSE {})
        ELSE IF ~clean THEN (IF e.rt.ok THEN (IF blk # {} /\ e.rt.t.k = "dynamic" THEN {} ELSE {"C10.ReturnTypeAgrees"})
                             ELSE IF IsArgErr(e.rt) /\ ~(e.rt.idx + 1 \in off) THEN {"C10.ErrorNamesOffender"} ELSE {})
        ELSE IF s.tcb \in {"err", "panic"} THEN (IF e.rt.ok \/ e.rt.fail = "panic" THEN {"C10.ReturnTypeAgrees"} ELSE {})
        ELSE (IF e.rt.ok /\ TEquals(e.rt.t, T) THEN {} ELSE {"C10.ReturnTypeAgrees"}))

CallNontrivialF(e) == e.cbs # <<>>
=============================================================================
