------------------------------- MODULE C14Gen -------------------------------
(* Wholly known argument lists for the number, string, formatting and        *)
(* encoding functions, shaped for each function's documented domain and its  *)
(* edges: numbers of either sign incl. fractions and infinities; strings     *)
(* over an alphabet with multi-code-point grapheme clusters (combining mark, *)
(* CR LF, emoji modifier, ZWJ sequence, regional-indicator pairs); format    *)
(* strings built from the documented verb grammar (flags, width, precision,  *)
(* argument index, verb); CSV tables; JSON-representable values.             *)
EXTENDS TextRef, Json, Randomization
Fn == IOEnv.VFN
S(x) == StrV(x)
Q(S0) == {NumV(q) : q \in S0}
NumP == Q({-10, -8, -6, -5, -4, -2, -1, 0, 1, 2, 3, 4, 6, 8, 10, 12, 16, 400}) \cup {K(TNum, PInf), K(TNum, NInf)}
NumS == Q({-6, -4, 0, 2, 4, 8}) \cup {K(TNum, PInf)}
StrC == {<<>>, <<"a">>, <<"a", "b">>, <<"b", "acute">>, <<"x", "b", "acute", "d">>, <<"CR", "LF">>, <<"x", "CR", "LF", "b">>, <<"wave", "tone">>,
         <<"wave", "zwj", "wave", "x">>, <<"ri", "ri", "ri">>, <<"x", "ri", "ri", "ri", "ri">>, <<"acute", "b">>, <<"b", "acute", "acute">>,
         <<"wave", "tone", "zwj", "wave">>, <<"LF", "acute">>, <<"a", "b", "c", "d">>, <<"b", "zwj", "x">>}
StrW == {<<" ", "a", " ">>, <<"a", "LF">>, <<"a", "CR", "LF">>, <<"a", "LF", "LF", "CR">>, <<"a", "LF", "b", "LF">>, <<"LF", "a">>, <<"TAB", "a", "b", " ", "LF">>,
         <<" ", " ">>, <<"a", " ", "b">>, <<"A", "b", " ", "c", "D">>, <<"a", "-", "b", "_", "c">>, <<"a", "1", "b", " ", "1", "a">>, <<"x", "b", "acute", " ", "b", "acute">>}
StrR == {<<"a", "a", "a">>, <<"a", "b", "a", "b", "a">>, <<"a", ",", "b">>, <<",", "a", ",", ",">>, <<"a", "b", "a">>, <<"b", "a", "b">>}
StrAll == StrC \cup StrW \cup StrR
Cut == {<<>>, <<"a">>, <<"a", "b">>, <<"b", "a">>, <<",">>, <<"a", "a">>, <<" ">>, <<"LF">>, <<"acute">>, <<"a", "b", "a">>, <<"b", "acute">>}
WholeI == Q({-12, -8, -4, 0, 4, 8, 12, 16, 20})
Idx == WholeI \cup Q({2, -2})
StrLists == {SeqV(TList(TStr), s) : s \in SeqsUpTo({S(<<"a">>), S(<<>>), S(<<"b", "acute">>)}, 2)} \cup {SeqV(TList(TStr), <<S(<<"a">>), Null(TStr)>>), SeqV(TList(TStr), <<S(<<"x">>), S(<<"b">>), S(<<"c">>)>>)}

LitPats == SeqsUpTo({"a", "b", "c"}, 3) \ {<<>>}
LitSubjects == {<<>>, <<"a">>, <<"a", "b", "a", "b", "c">>, <<"c", "c", "a", "a", "a">>, <<"b", "c", "b", "c", "b">>, <<"a", "b", "c", "a", "b", "c", "a">>}
\* ---- format strings from the verb grammar
FlagSets == {<<>>, <<"-">>, <<"0">>, <<"+">>, <<" ">>, <<"#">>, <<"-", "0">>, <<"0", "+">>, <<"+", " ">>, <<"-", "+">>, <<"0", " ">>}
Widths == {<<>>, <<"1">>, <<"3">>, <<"6">>}
Precs == {<<>>, <<".">>, <<".", "0">>, <<".", "1">>, <<".", "2">>}
Idxs == {<<>>, <<"[", "1", "]">>, <<"[", "2", "]">>, <<"[", "0", "]">>, <<"[", "3", "]">>, <<"[", "1">>}
Modes == {"s", "d", "v", "q", "t", "z", "x"}
Verb(fl, w, p, ix, m) == <<"%">> \o fl \o w \o p \o ix \o <<m>>
Verbs1 == {Verb(fl, w, p, ix, m) : fl \in FlagSets, w \in Widths, p \in Precs, ix \in Idxs, m \in Modes}
VerbsLite == {Verb(fl, w, p, ix, m) : fl \in {<<>>, <<"-">>, <<"0">>}, w \in {<<>>, <<"3">>}, p \in {<<>>, <<".", "1">>}, ix \in {<<>>, <<"[", "1", "]">>, <<"[", "2", "]">>}, m \in {"s", "d", "v"}}
Lits == {<<>>, <<"a">>, <<"%", "%">>, <<"b", "acute", " ">>}
Fmt1 == {l \o v \o r : l \in {<<>>, <<"a">>}, v \in Verbs1, r \in {<<>>, <<"%", "%">>}}
Fmt2 == {v1 \o l \o v2 : v1 \in VerbsLite, l \in {<<>>, <<"-">>}, v2 \in VerbsLite}
FmtBad == {<<"%">>, <<"a", "%">>, <<"%", "!">>, <<"%", "3">>, <<"%", ".", "s">>, <<"%", "[", "]", "s">>, <<"%", "[", "a", "]", "s">>, <<"%", "s", "%">>, <<"%", "0", "3", "d">>, <<"%", "-", "-", "s">>,
           <<"a", "b">>, <<>>, <<"%", "%">>, <<"%", "1", "0", "s">>, <<"%", "3", ".", "1", "[", "2", "]", "s">>}
FmtArgs == {S(<<"a", "b">>), S(<<"x", "b", "acute", "d">>), S(<<"wave", "tone", "x">>), NumV(8), NumV(-12), NumV(6), NumV(0), NumV(400), BoolV(TRUE), Null(TStr), S(<<>>),
            SeqV(TList(TNum), <<NumV(4), NumV(2)>>), S(<<"a", "\"", "LF">>),
            K(TNum, [lm |-> "f64intp"]), K(TNum, [lm |-> "u64max"]), K(TNum, [lm |-> "almost1"]), K(TNum, [lm |-> "malmost3"])}
ArgLs == {<<>>} \cup {<<x>> : x \in FmtArgs} \cup {<<x, y>> : x \in TakeN(FmtArgs, 9), y \in {S(<<"a", "b">>), NumV(8), NumV(-12)}}
Pick(n, S0) == IF Cardinality(S0) <= n THEN S0 ELSE RandomSubset(n, S0)
\* always present: every verb with each single flag and each width (the sampled product adds precisions, indices, flag pairs)
FmtBasic == {Verb(fl, w, <<>>, <<>>, m) : fl \in {<<>>, <<"-">>, <<"0">>, <<"+">>, <<" ">>, <<"#">>}, w \in Widths, m \in Modes}
Formats == FmtBasic \cup Pick(IF Thorough THEN 5000 ELSE 350, Fmt1) \cup Pick(IF Thorough THEN 2500 ELSE 150, Fmt2) \cup FmtBad
\* three verbs with explicit / implicit argument indices: the index threading ("next argument" after an explicit index)
VerbsIdx == {<<"%">> \o ix \o <<m>> : ix \in {<<>>, <<"[", "1", "]">>, <<"[", "2", "]">>, <<"[", "3", "]">>}, m \in {"s", "v"}}
Fmt3 == {v1 \o <<"|">> \o v2 \o <<"|">> \o v3 : v1 \in VerbsIdx, v2 \in VerbsIdx, v3 \in VerbsIdx}
Args3 == {<<S(<<"a">>), NumV(8), S(<<"x">>)>>, <<S(<<"a">>), NumV(8)>>, <<NumV(4), S(<<"b", "acute">>), BoolV(TRUE), S(<<"x">>)>>}
FormatLists == {<<S(f)>> \o al : f \in Formats, al \in ArgLs} \cup {<<S(f)>> \o al : f \in Pick(IF Thorough THEN 600 ELSE 200, Fmt3), al \in Args3}
FLArgs == {SeqV(TList(TStr), <<S(<<"a">>), S(<<"b", "acute">>)>>), SeqV(TList(TNum), <<NumV(4), NumV(8)>>), SeqV(TList(TStr), <<>>), SeqV(TList(TNum), <<NumV(4)>>),
           SeqV(TTup(<<TNum, TStr>>), <<NumV(4), S(<<"a">>)>>), S(<<"x">>), NumV(12), Null(TStr)}
FormatListLists == {<<S(f)>> \o al : f \in {<<"%", "s">>, <<"%", "s", "-", "%", "d">>, <<"%", "3", "v", "%", "[", "1", "]", "s">>, <<"a">>, <<"%", "d">>, <<"%", "-", "3", "s", "|", "%", "v">>},
                                      al \in {<<>>} \cup {<<x>> : x \in FLArgs} \cup {<<x, y>> : x \in FLArgs, y \in FLArgs}}

\* ---- CSV tables
CsvHdrs == {<<"a", ",", " ", "b">>, <<" ", "a">>, <<"a", "b", ",", "c">>, <<"a">>, <<"a", ",", "b">>, <<"b", ",", "a">>, <<"a", ",", "a">>, <<"a", ",", "b", ",", "c">>, <<>>}
CsvRows == {<<"1", ",", " ", "0">>, <<"1">>, <<"1", ",", "0">>, <<"x", " ", ",", "b", "acute">>, <<",">>, <<"1", ",", "0", ",", "1">>, <<"a", "b">>}
CsvNL == {<<"LF">>, <<"CR", "LF">>}
CsvTexts == {h : h \in CsvHdrs} \cup {h \o nl : h \in CsvHdrs, nl \in CsvNL}
            \cup {h \o nl \o r \o e : h \in CsvHdrs, nl \in CsvNL, r \in CsvRows, e \in {<<>>, <<"LF">>}}
            \cup {h \o <<"LF">> \o r1 \o nl \o r2 : h \in CsvHdrs, r1 \in CsvRows, r2 \in CsvRows, nl \in CsvNL \cup {<<"LF", "LF">>}}

\* ---- JSON-representable values
JT == {TNum, TStr, TBool, TList(TNum), TList(TStr), TMap(TNum), TMap(TStr), TTup(<<TNum, TStr>>), TTup(<<>>), TObj([a |-> TNum, b |-> TStr]), TObj(<<>>),
       TList(TList(TNum)), TMap(TList(TStr)), TObj([a |-> TList(TNum), b |-> TStr]), TTup(<<TList(TStr), TNum>>), TList(TObj([a |-> TNum]))}
JVals == {K(TNum, [lm |-> x]) : x \in DOMAIN LmText} \cup {SeqV(TList(TNum), <<K(TNum, [lm |-> "f64intp"]), NumV(4)>>)} \cup UNION {AllVals(t) : t \in JT} \cup {S(<<"a", "\"", "b">>), S(<<"\\", "LF", "TAB">>), S(<<"<", "b", "acute">>), NumV(-10), NumV(3), NumV(400), NumV(-1)}
JFin == {v \in JVals : JTextable(v)}

TSPool == {<<"2", "0", "2", "0", "-", "0", "2", "-", "2", "9", "T", "2", "3", ":", "5", "9", ":", "5", "9", "Z">>, <<"2", "0", "2", "1", "-", "0", "3", "-", "0", "9", "T", "0", "0", ":", "0", "7", ":", "3", "0", "Z">>, <<"1", "9", "9", "9", "-", "1", "2", "-", "3", "1", "T", "1", "2", ":", "0", "0", ":", "0", "0", "+", "0", "5", ":", "3", "0">>, <<"2", "0", "0", "0", "-", "0", "1", "-", "0", "1", "T", "1", "3", ":", "0", "5", ":", "0", "9", "-", "0", "8", ":", "0", "0">>, <<"2", "0", "2", "1", "-", "0", "2", "-", "2", "9", "T", "0", "0", ":", "0", "0", ":", "0", "0", "Z">>, <<"2", "0", "2", "0", "-", "1", "3", "-", "0", "1", "T", "0", "0", ":", "0", "0", ":", "0", "0", "Z">>, <<"2", "0", "2", "0", "-", "0", "1", "-", "0", "1", "T", "2", "4", ":", "0", "0", ":", "0", "0", "Z">>, <<"2", "0", "2", "0", "-", "0", "1", "-", "0", "1", "T", "0", "0", ":", "0", "0", ":", "0", "0", "+", "2", "4", ":", "0", "0">>, <<"2", "0", "2", "0", "-", "0", "1", "-", "0", "1", " ", "0", "0", ":", "0", "0", ":", "0", "0", "Z">>, <<"2", "0", "2", "0", "-", "0", "1", "-", "0", "1", "T", "0", "0", ":", "0", "0", ":", "0", "0">>, <<>>, <<"2", "0", "2", "0", "-", "0", "1", "-", "0", "1", "T", "0", "0", ":", "0", "0", ":", "0", "0", "+", "0", "0", ":", "0", "0">>, <<"0", "0", "0", "1", "-", "0", "1", "-", "0", "1", "T", "0", "0", ":", "0", "0", ":", "0", "0", "Z">>, <<"9", "9", "9", "9", "-", "1", "2", "-", "3", "1", "T", "2", "3", ":", "5", "9", ":", "5", "9", "Z">>, <<"2", "0", "2", "3", "-", "1", "0", "-", "0", "1", "T", "1", "1", ":", "5", "9", ":", "5", "9", "-", "0", "0", ":", "3", "0">>, <<"2", "0", "2", "4", "-", "1", "2", "-", "3", "1", "T", "2", "3", ":", "0", "0", ":", "0", "0", "+", "0", "1", ":", "0", "0">>, <<"2", "0", "1", "9", "-", "0", "6", "-", "1", "5", "T", "1", "2", ":", "3", "0", ":", "4", "5", "Z">>, <<"2", "0", "2", "0", "-", "0", "1", "-", "0", "1", "T", "0", "0", ":", "6", "0", ":", "0", "0", "Z">>, <<"2", "0", "2", "0", "-", "1", "-", "0", "1", "T", "0", "0", ":", "0", "0", ":", "0", "0", "Z">>, <<"2", "0", "2", "0", "-", "0", "1", "-", "0", "1", "T", "0", "0", ":", "0", "0", ":", "0", "0", "-", "0", "8", "0", "0">>}
FDFormats == {<<"Y", "Y", "Y", "Y", "-", "M", "M", "-", "D", "D">>, <<"Y", "Y">>, <<"M">>, <<"M", "M">>, <<"M", "M", "M">>, <<"M", "M", "M", "M">>, <<"D">>, <<"D", "D">>, <<"E", "E", "E">>, <<"E", "E", "E", "E">>, <<"h">>, <<"h", "h">>, <<"H">>, <<"H", "H">>, <<"A", "A">>, <<"a", "a">>, <<"m">>, <<"m", "m">>, <<"s">>, <<"s", "s">>, <<"Z">>, <<"Z", "Z", "Z">>, <<"Z", "Z", "Z", "Z">>, <<"Z", "Z", "Z", "Z", "Z">>, <<"Y", "Y", "Y">>, <<"Y">>, <<"M", "M", "M", "M", "M">>, <<"D", "D", "D">>, <<"E">>, <<"E", "E">>, <<"h", "h", "h">>, <<"A">>, <<"a", "a", "a">>, <<"Z", "Z">>, <<"x">>, <<"'", "x", "'">>, <<"'", "'">>, <<"'", "a", "'", "'", "b", "'">>, <<"'", "u", "n", "t", "e", "r", "m", "i", "n", "a", "t", "e", "d">>, <<"h", "h", ":", "m", "m", ":", "s", "s", " ", "A", "A">>, <<"H", " ", "'", "o", "'", "'", "c", "l", "o", "c", "k", "'", " ", "a", "a">>, <<"D", "/", "M", "/", "Y", "Y">>, <<"Y", "Y", "Y", "Y", "-", "M", "M", "-", "D", "D", "'", "T", "'", "h", "h", ":", "m", "m", ":", "s", "s", "Z">>, <<>>, <<"E", "E", "E", "E", ",", " ", "D", "D", "-", "M", "M", "M", "-", "Y", "Y", " ", "h", "h", ":", "m", "m", ":", "s", "s", " ", "Z", "Z", "Z">>, <<"H", "H", ":", "m", "m", " ", "a", "a">>, <<"h", ".", "m", ".", "s">>, <<"m", "m", "m">>, <<"s", "s", "s">>, <<"'">>}
Durations == {<<"1", "h">>, <<"-", "1", "h">>, <<"9", "0", "m">>, <<"1", "h", "3", "0", "m">>, <<"8", "6", "4", "0", "0", "s">>, <<"0", "s">>, <<"0">>, <<"1", "d">>, <<>>, <<"1">>, <<"h">>, <<"+", "1", "h">>, <<"-", "2", "4", "h">>, <<"1", "s">>, <<"-", "1", "s">>, <<"3", "6", "0", "0", "s">>, <<"1", ".", "5", "h">>, <<"1", "m", "s">>, <<"9", "9", "9", "h">>, <<"-", "9", "9", "9", "h">>, <<"1", "h", "-", "1", "m">>, <<"1", "m", "1", "h">>, <<"6", "0", "m">>, <<"-", "1", "m", "3", "0", "s">>, <<"2", "5", "h">>}
ArgLists ==
  CASE Fn \in {"ceil", "floor", "int", "signum", "abs", "negate"} -> {<<x>> : x \in NumP \cup Q({7, -7, 9, -9, 15, -15, -16, 401}) \cup {K(TNum, [lm |-> n]) : n \in {"almost1", "almost3", "malmost1", "malmost3", "tenth", "third", "mtenth"}}}
    [] Fn \in {"add", "subtract", "multiply", "divide", "modulo", "lessthan", "greaterthan", "lessthanorequalto", "greaterthanorequalto", "equal", "notequal", "pow", "log"}
         -> {<<x, y>> : x \in NumP, y \in NumP}
    [] Fn \in {"min", "max"} -> SeqsUpTo(NumS, 3)
    [] Fn = "parseint" -> {<<S(s), b>> : s \in {<<>>, <<"0">>, <<"1">>, <<"1", "0">>, <<"1", "0", "1">>, <<"-", "1">>, <<"-">>, <<"+", "1">>, <<"2">>, <<"1", "2">>, <<"a">>, <<"f">>,
                                                 <<"f", "f">>, <<"F", "F">>, <<"z">>, <<"1", "a">>, <<"1", " ">>, <<" ", "1">>, <<"1", "_", "0">>, <<"0", "x", "1">>, <<"-", "f", "f">>, <<"1", ".", "0">>,
                                                 <<"7", "7", "7">>, <<"-", "0">>, <<"0", "0", "1">>},
                                        b \in Q({8, 40, 64, 4, 0, 252, 248, 10, -8, 32, 144})}
    [] Fn \in {"upper", "lower", "title", "strlen", "reverse", "chomp", "trimspace"} -> {<<S(s)>> : s \in StrAll}
    [] Fn = "substr" -> {<<S(s), o, l>> : s \in StrC \cup {<<"a", " ", "b">>}, o \in Idx, l \in Idx}
    [] Fn = "join" -> {<<S(sep)>> : sep \in {<<",">>}} \cup {<<S(sep), l>> : sep \in {<<>>, <<",">>, <<"b", "acute">>}, l \in StrLists}
                      \cup {<<S(sep), l, m>> : sep \in {<<",">>, <<>>}, l \in TakeN(StrLists, 6), m \in StrLists}
    [] Fn = "split" -> {<<S(sep), S(s)>> : sep \in Cut, s \in StrAll}
    [] Fn = "indent" -> {<<n, S(s)>> : n \in Q({-4, 0, 4, 8, 2, 12}), s \in StrW \cup {<<>>, <<"LF">>, <<"a">>}}
    [] Fn \in {"trim", "trimprefix", "trimsuffix"} -> {<<S(s), S(c)>> : s \in StrAll, c \in Cut}
    \* literal patterns: every non-empty string over {a, b, c} up to length 3 (39 patterns), each met again under every subject
    [] Fn \in {"regex", "regexall"} -> {<<S(p), S(s)>> : p \in LitPats, s \in LitSubjects}
    [] Fn = "regexreplace" -> {<<S(s), S(p), S(r)>> : s \in LitSubjects, p \in LitPats, r \in {<<>>, <<"c", "c">>}}
    [] Fn = "replace" -> {<<S(s), S(o), S(n)>> : s \in StrR \cup {<<>>, <<"a">>, <<"x", "b", "acute", "d">>}, o \in Cut, n \in {<<>>, <<"x">>, <<"a", "a">>, <<"b", "acute">>}}
    [] Fn = "format" -> FormatLists
    [] Fn = "formatlist" -> FormatListLists
    [] Fn \in {"jsonencode", "jsonencode>jsondecode"} -> {<<v>> : v \in JFin}
    [] Fn = "formatdate" -> {<<S(f), S(t)>> : f \in FDFormats, t \in TSPool}
    [] Fn = "timeadd" -> {<<S(t), S(d)>> : t \in TSPool, d \in Durations}
    [] Fn = "csvdecode" -> {<<S(t)>> : t \in CsvTexts}
    [] OTHER -> {}
\* VMODE = weak (C12): the same domain-shaped lists as concrete bases, each argument weakened in turn to typed unknowns true of it
GMode == Env("VMODE", "call")
RankedArgs(a) == \A i \in 1..Len(a) : Ranked(a[i])
WBase14 == LET R == {a \in ArgLists : RankedArgs(a)} IN IF Thorough THEN R ELSE RandomSubset(IF Cardinality(R) < 250 THEN Cardinality(R) ELSE 250, R)
Weak14(a) == UNION {{[a EXCEPT ![i] = w] : w \in TakeN({x \in Weak1(a[i], FALSE) : TypedUnknowns(x)}, IF Thorough THEN 12 ELSE 6)} : i \in 1..Len(a)}
ASSUME LET sq == SetToSeq(IF GMode = "weak" THEN WBase14 ELSE ArgLists) IN
       ndJsonSerialize(IOEnv.VOUT, [i \in 1..Len(sq) |-> [k |-> GMode, api |-> "fn:" \o Fn, xs |-> <<[none |-> TRUE]>>, a |-> sq[i],
                                                            vs |-> IF GMode = "weak" THEN SetToSeq(Weak14(sq[i])) ELSE <<>>]])
       /\ PrintT(<<"GEN", Len(sq)>>)
VARIABLE x
Init == x = 0
Next == UNCHANGED x
=============================================================================
