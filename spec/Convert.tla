------------------------------- MODULE Convert ------------------------------
(***************************************************************************)
(* Contract of convert.Convert / GetConversion / GetConversionUnsafe.      *)
(* One event = one (value, target type) request with everything observed:  *)
(*   r     result of Convert(in, target)                                   *)
(*   r2    result of converting r.val to target again                      *)
(*   back  result of converting r.val back to in's type                    *)
(*   safe / unsafe   "nil" | "ok" | "err" | "panic": the offered           *)
(*          conversions and what applying them to in did                   *)
(*   cands  for unknown in: admitted concrete candidates and their own     *)
(*          conversion results                                       [C08] *)
(***************************************************************************)
EXTENDS Values

PrimExact(s, t) == IsPrimT(s) /\ IsPrimT(t)
RECURSIVE RoundTripExact(_, _)
RoundTripExact(s, t) ==     \* converting s -> t -> s is documented to lose nothing
  \/ TEquals(s, t)
  \/ (IsPrimT(s) /\ t.k = "string")
  \/ (s.k = "set" /\ t.k = "list" /\ RoundTripExact(s.e, t.e))
  \/ (s.k = "tuple" /\ t.k = "list" /\ \A i \in 1..Len(s.es) : RoundTripExact(s.es[i], t.e))
  \/ (s.k = "list" /\ t.k = "list" /\ RoundTripExact(s.e, t.e))
  \/ (s.k = "map" /\ t.k = "map" /\ RoundTripExact(s.e, t.e))
  \/ (s.k = "object" /\ t.k = "map" /\ \A n \in DOMAIN s.as : RoundTripExact(s.as[n], t.e))

\* structural conversions whose result is fixed by the members alone (element types unchanged)
SameElems(a, b) == {Canon(Elems(a)[i]) : i \in 1..Len(Elems(a))} = {Canon(Elems(b)[i]) : i \in 1..Len(Elems(b))}
RefApplies(v, t) ==
  /\ v.st = "k" /\ WhollyKnown(v) /\ MarksIn(v) = {}
  /\ \/ (v.ty.k \in {"list", "set"} /\ t.k \in {"list", "set"} /\ TEquals(v.ty.e, t.e))
     \/ (v.ty.k = "tuple" /\ t.k \in {"list", "set"} /\ \A i \in 1..Len(v.ty.es) : TEquals(v.ty.es[i], t.e))
     \/ (v.ty.k = "object" /\ t.k = "map" /\ \A n \in DOMAIN v.ty.as : TEquals(v.ty.as[n], t.e))
     \/ (v.ty.k = "map" /\ t.k = "object" /\ DOMAIN Attrs(v) = DOMAIN t.as /\ \A n \in DOMAIN t.as : TEquals(t.as[n], v.ty.e))
RefHolds(v, t, o) ==     \* o observed result
  /\ o.st = "k" /\ TEquals(o.ty, StripOpt(t))
  /\ IF t.k = "list" THEN (IF v.ty.k = "set" THEN SameElems(v, o) /\ Len(Elems(o)) = Len(Elems(v))
                           ELSE [i \in 1..Len(Elems(v)) |-> Canon(Elems(v)[i])] = [i \in 1..Len(Elems(o)) |-> Canon(Elems(o)[i])])
     ELSE IF t.k = "set" THEN SameElems(v, o) /\ Len(Elems(o)) = Cardinality({Canon(Elems(v)[i]) : i \in 1..Len(Elems(v))})
     ELSE DOMAIN Attrs(o) = DOMAIN Attrs(v) /\ \A n \in DOMAIN Attrs(v) : Canon(Attrs(o)[n]) = Canon(Attrs(v)[n])

\* result type r keeps every placeholder of target t resolved where the input type i had resolved it
\* (judged only where positions of i and t correspond one to one)
RECURSIVE Resolved(_, _, _)
Resolved(r, i, t) ==
  IF t.k = "dynamic" THEN (HasDyn(r) => HasDyn(i))
  ELSE CASE t.k \in CollKinds /\ i.k \in CollKinds /\ r.k \in CollKinds -> Resolved(r.e, i.e, t.e)
         \* a tuple whose elements all have one type, converted to a list / set: that element type resolves the target's placeholders
         [] t.k \in {"list", "set"} /\ i.k = "tuple" /\ r.k \in {"list", "set"} /\ Len(i.es) > 0 /\ (\A k \in 1..Len(i.es) : TEquals(i.es[k], i.es[1])) ->
               Resolved(r.e, i.es[1], t.e)
         [] t.k = "tuple" /\ i.k = "tuple" /\ r.k = "tuple" /\ Len(t.es) = Len(i.es) /\ Len(r.es) = Len(t.es) ->
               \A k \in 1..Len(t.es) : Resolved(r.es[k], i.es[k], t.es[k])
         [] t.k = "object" /\ i.k = "object" /\ r.k = "object" ->
               \A n \in (DOMAIN t.as \cap DOMAIN i.as) \cap DOMAIN r.as : Resolved(r.as[n], i.as[n], t.as[n])
         [] OTHER -> TRUE

ConvFailed(e) ==
  LET in == e["in"]  t == e.target  r == e.r IN
  (IF \E x \in {r, e.r2, e.back} : ~x.ok /\ Has(x, "fail") /\ x.fail = "panic" THEN {"C08.NoPanic"} ELSE {})
  \* a conversion obtained once and applied to another value first gives, for this value, what converting it alone gives
  \* (for unknown parts the conversion function may answer less precisely than Convert's identity short-cut: Admits, not equality)
  \cup (IF Has(e, "r3") /\ r.ok /\ Ranked(r.val) /\ (e.r3.ok => Ranked(e.r3.val))
           /\ ~(e.r3.ok /\ Admits(UnmarkDeep(e.r3.val), UnmarkDeep(r.val)) /\ (WhollyKnown(r.val) => e.r3.val = r.val)) THEN {"C08.ConversionIsAFunctionOfItsInput"} ELSE {})
  \* the conversion for a dynamically typed source, obtained once per target: same outcome as Convert for this value, and the same
  \* again after it was applied to a value of another type in between
  \* (for a null or unknown value the dynamic-source conversion answers a null / unknown of the target type whatever the value's own
  \*  type was - by design - so the outcome is compared for known values only)
  \cup (IF Has(e, "r4") /\ ((in.st = "k" /\ e.r4.ok # r.ok) \/ (~e.r4.ok /\ e.r4.fail = "panic")) THEN {"C08.ConversionIsAFunctionOfItsInput"} ELSE {})
  \cup (IF Has(e, "r5") /\ e.r5 # e.r4 /\ (e.r5.ok # e.r4.ok \/ (e.r5.ok /\ e.r5.val # e.r4.val) \/ (~e.r5.ok /\ e.r5.fail = "panic")) THEN {"C08.ConversionIsAFunctionOfItsInput"} ELSE {})
  \* the converted value (and its type) reports the same after the conversions as before
  \cup (IF Has(e, "iv") /\ e.iv # e.iv2 THEN {"C20.Immutable"} ELSE {})
  \cup (IF e.safe = "panic" \/ e.unsafe = "panic" THEN {"C08.NoPanic"} ELSE {})
  \cup (IF e.safe # "nil" /\ e.unsafe = "nil" THEN {"C08.SafeSubsetUnsafe"} ELSE {})
  \cup (IF e.safe = "err" /\ ~HasDyn(t) THEN {"C08.SafeIsTotal"} ELSE {})
  \cup (IF TEquals(in.ty, StripOpt(t)) /\ ~(r.ok /\ r.val = in) THEN {"C08.Identity"} ELSE {})
  \cup (IF r.ok THEN
          (IF Conforms(r.val.ty, StripOpt(t)) /\ ~HasOpt(r.val.ty) THEN {} ELSE {"C08.ResultConforms"})
          \cup (IF Resolved(r.val.ty, in.ty, t) THEN {} ELSE {"C08.KeepsResolvedPlaceholders"})
          \cup (IF WellFormedR(r) THEN {} ELSE {"C06.WellFormed"})
          \cup (IF e.r2.ok /\ e.r2.val = r.val THEN {} ELSE {"C08.Idempotent"})
          \cup (IF e.back.ok /\ WhollyKnown(in) /\ RoundTripExact(in.ty, StripOpt(t)) /\ ~AbsEq(e.back.val, in) THEN {"C08.RoundTrip"} ELSE {})
          \cup (IF in.st = "null" /\ r.val.st # "null" THEN {"C08.NullPassThrough"} ELSE {})
          \* (a set holding unknown members has an unknown length: turning it into a list may give an unknown list)
          \cup (IF in.st = "k" /\ r.val.st # "k" /\ t.k # "dynamic" /\ ~(in.ty.k = "set" /\ ~WhollyKnown(in)) THEN {"C08.KnownStaysKnown"} ELSE {})
          \cup (IF in.st = "unk" /\ \E i \in 1..Len(e.cands) : e.cands[i].r.ok /\ Ranked(e.cands[i].r.val) /\ ~Admits(UnmarkDeep(r.val), UnmarkDeep(e.cands[i].r.val))
                THEN {"C08.UnknownAdmitsConvertedCandidates"} ELSE {})
          \cup (IF RefApplies(in, StripOpt(t)) /\ ~RefHolds(in, StripOpt(t), r.val) THEN {"C08.ResultIsRef"} ELSE {})
          \* primitive spellings: a small number converts to its shortest decimal text, a boolean to true / false
          \cup (IF in.st = "k" /\ t.k = "string" /\ in.ty.k = "number" /\ Has(in.v, "q") /\ AbsQ(in.v.q) < 4000000 /\ ~(r.val.st = "k" /\ r.val.ty.k = "string" /\ StrOf(r.val) = QText(in.v.q))
                THEN {"C08.ResultIsRef"} ELSE {})
          \cup (IF in.st = "k" /\ t.k = "string" /\ in.ty.k = "bool" /\ ~(r.val.st = "k" /\ r.val.ty.k = "string" /\ StrOf(r.val) = (IF BoolOf(in) THEN <<"t", "r", "u", "e">> ELSE <<"f", "a", "l", "s", "e">>))
                THEN {"C08.ResultIsRef"} ELSE {})
          \cup (IF TopMarks(in) \subseteq MarksIn(r.val) /\ MarksIn(r.val) \subseteq MarksIn(in) THEN {} ELSE {"C04.ConvertKeepsMarks"})
        ELSE {})
ConvNontrivial(e) == e.r.ok /\ ~TEquals(e["in"].ty, StripOpt(e.target))
=============================================================================
