INIT Init
NEXT Next
