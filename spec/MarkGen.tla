------------------------------- MODULE MarkGen ------------------------------
(* Marked inputs for conversions and constructors (C04): every placement of    *)
(* marks m1, m2 on the top level and on nested members, combined with unknown  *)
(* and null values.  Output lines have the format of OpsGen ("mark" lines).    *)
EXTENDS Ops, Json
Fam == IOEnv.VFAM
ConvTargets == {TDyn, TStr, TNum, TList(TStr), TSet(TStr), TSet(TNum), TMap(TStr), TList(TDyn), TTup(<<TStr, TStr>>), TObj([a |-> TStr]),
                TObjOpt([a |-> TStr, b |-> TNum], <<"b">>), TList(TList(TStr)), TMap(TList(TStr)), TObj([a |-> TNum, b |-> TStr])}
SrcT == PrimTypes \cup VT1 \cup TakeN(VT2, 6)
BaseVals(t) == TakeN(Vals(t, W), 5) \cup {Null(t), Unk(t, NoRf)} \cup UNION {TakeN(Weak1(v, TRUE), 2) : v \in TakeN(Vals(t, W), 2)}
MarkedOf(v) == MarkPlacements(v) \ {v}
ConvLines == UNION {{[k |-> "mark", api |-> "Convert", xs |-> [i \in 1..Len(SetToSeq(ConvTargets \cup {t})) |-> [ty |-> SetToSeq(ConvTargets \cup {t})[i]]],
                      a |-> <<v>>, vs |-> SetToSeq({<<m>> : m \in MarkedOf(v)})] : v \in BaseVals(t)} : t \in SrcT}
\* constructors: member lists with marks on members (and nested inside members)
ElemT == {TNum, TStr, TList(TNum), TObj([a |-> TNum]), TTup(<<TNum, TStr>>)}
MemberLists(t) == {s \in SeqsUpTo(TakeN(Vals(t, W), 3) \cup {Null(t), Unk(t, NoRf)}, 2) : s # <<>>}
MarkMembers(s) == UNION {{[s EXCEPT ![i] = m] : m \in TakeN(MarkedOf(s[i]), 4)} : i \in 1..Len(s)}
                  \cup (IF Len(s) = 2 THEN {<<WithMk(s[1], <<"m1">>), WithMk(s[2], <<"m2">>)>>} ELSE {})
                  \* a member marked on itself AND on a nested part (two different marks)
                  \cup UNION {{[s EXCEPT ![i] = WithMk(w, <<"m1">>)] : w \in TakeN(MarkNested(s[i], <<"m2">>), 2)} : i \in 1..Len(s)}
CtorLines == UNION {UNION {{[k |-> "mark", api |-> api, xs |-> <<[keys |-> SubSeq(<<"a", "b">>, 1, Len(s))]>>, a |-> s, vs |-> SetToSeq(MarkMembers(s))]
                            : api \in {"SetVal", "ListVal", "TupleVal", "MapVal", "ObjectVal"}} : s \in MemberLists(t)} : t \in ElemT}
\* the mark API itself: receiver and source values, each possibly marked (top level or nested)
MarkApiLines == UNION {UNION {{[k |-> "mark", api |-> api, xs |-> <<[none |-> TRUE]>>, a |-> s, vs |-> SetToSeq(MarkMembers(s) \cup {s})]
                               : api \in (IF Len(s) = 1 THEN {"Unmark", "UnmarkDeep", "WithSameMarks"} ELSE {"WithSameMarks", "WithMarks"})} : s \in MemberLists(t)} : t \in ElemT}
\* constructors given a Go map whose keys are two spellings of ONE name (normalized and not): which entry survives is the
\* caller's problem, but whatever is returned must be a well-formed value (declared attribute type = payload)
DupVals == {NumV(4), StrV(<<"a">>), BoolV(TRUE), SeqV(TList(TNum), <<NumV(0)>>), Null(TStr), Unk(TNum, NoRf), MapV(TObj([a |-> TNum]), [a |-> NumV(0)])}
DupKeyLines == {[k |-> "call", api |-> "ObjectVal", xs |-> <<[keys |-> ks, dup |-> TRUE]>>, a |-> <<v1, v2>>, vs |-> <<>>]
                 : v1 \in DupVals, v2 \in DupVals, ks \in {<<"eacute", "eacute:nfd">>, <<"omega:nfd", "omega">>}}
               \cup {[k |-> "call", api |-> "MapVal", xs |-> <<[keys |-> <<"eacute", "eacute:nfd">>, dup |-> TRUE]>>, a |-> <<v1, v2>>, vs |-> <<>>]
                     : v1 \in {NumV(4), Null(TNum)}, v2 \in {NumV(0), Unk(TNum, NoRf)}}
\* collection constructors given members of DIFFERENT types one of which merely contains a placeholder (tuple([dynamic]), object({a=dynamic}),
\* an empty set / list of dynamic): refused today; whatever is returned instead must be well-formed (declared element type = payload)
HetPlace == {SeqV(TTup(<<TDyn>>), <<Null(TDyn)>>), MapV(TObj([a |-> TDyn]), [a |-> Null(TDyn)]), SeqV(TSet(TDyn), <<>>), SeqV(TList(TDyn), <<>>),
             MapV(TObj([a |-> TDyn, b |-> TStr]), [a |-> Null(TDyn), b |-> StrV(<<"a">>)])}
HetOther == {StrV(<<"a">>), NumV(4), SeqV(TTup(<<TStr>>), <<StrV(<<"a">>)>>), SeqV(TSet(TStr), <<StrV(<<"a">>)>>), SeqV(TList(TNum), <<NumV(4)>>),
             MapV(TObj([a |-> TStr]), [a |-> StrV(<<"a">>)]), MapV(TObj([a |-> TNum, b |-> TStr]), [a |-> NumV(0), b |-> StrV(<<"b">>)])}
HetLines == {[k |-> "call", api |-> api, xs |-> <<[keys |-> <<"a", "b", "c">>]>>, a |-> s, vs |-> <<>>]
              : api \in {"ListVal", "SetVal", "MapVal"}, s \in {<<p, o>> : p \in HetPlace, o \in HetOther} \cup {<<o, p>> : p \in HetPlace, o \in HetOther}
                                                                  \cup {<<o, p, o>> : p \in TakeN(HetPlace, 2), o \in TakeN(HetOther, 3)} \cup {<<p, q>> : p \in HetPlace, q \in HetPlace}}
\* predicates of a value (known-ness, nullness): marks anywhere in the value do not change their answers
PredVals == {SeqV(TList(TList(TNum)), <<SeqV(TList(TNum), <<NumV(4), Unk(TNum, NoRf)>>)>>), SeqV(TList(TList(TNum)), <<SeqV(TList(TNum), <<NumV(4)>>)>>),
             SeqV(TTup(<<TList(TNum), TStr>>), <<SeqV(TList(TNum), <<Unk(TNum, NoRf)>>), StrV(<<"a">>)>>), SeqV(TTup(<<TList(TNum), TStr>>), <<SeqV(TList(TNum), <<NumV(0)>>), Unk(TStr, NoRf)>>),
             MapV(TObj([a |-> TObj([b |-> TNum])]), [a |-> MapV(TObj([b |-> TNum]), [b |-> Unk(TNum, NoRf)])]), MapV(TMap(TList(TStr)), [a |-> SeqV(TList(TStr), <<Unk(TStr, [null |-> "F"])>>)]),
             SeqV(TList(TSet(TNum)), <<SeqV(TSet(TNum), <<NumV(4), Unk(TNum, NoRf)>>)>>), SeqV(TList(TNum), <<Null(TNum)>>), Null(TList(TNum)), Unk(TList(TNum), NoRf), NumV(4),
             SeqV(TTup(<<TDyn>>), <<DynVal>>), SeqV(TList(TTup(<<TNum, TStr>>)), <<SeqV(TTup(<<TNum, TStr>>), <<NumV(4), Unk(TStr, NoRf)>>)>>)}
PredLines == {[k |-> "mark", api |-> api, xs |-> <<[none |-> TRUE]>>, a |-> <<v>>, vs |-> SetToSeq({<<m>> : m \in MarkPlacements(v)})]
               : api \in {"IsWhollyKnown", "IsKnown", "IsNull", "HasWhollyKnownType"}, v \in PredVals}
\* a transformation whose callback marks every primitive leaf, applied to values that already carry marks (on sets, lists, maps, at any depth):
\* the rebuilt value is well-formed (one marker layer, marks of set members on the set)
TmVals == {SeqV(TSet(TStr), <<StrV(<<"a">>), StrV(<<"b">>)>>), SeqV(TList(TStr), <<StrV(<<"a">>)>>), MapV(TMap(TNum), [a |-> NumV(4)]), SeqV(TTup(<<TNum, TStr>>), <<NumV(0), StrV(<<"a">>)>>),
           SeqV(TList(TSet(TStr)), <<SeqV(TSet(TStr), <<StrV(<<"a">>)>>)>>), MapV(TObj([a |-> TSet(TNum)]), [a |-> SeqV(TSet(TNum), <<NumV(4), NumV(8)>>)]), SeqV(TSet(TTup(<<TNum, TStr>>)), <<SeqV(TTup(<<TNum, TStr>>), <<NumV(4), StrV(<<"a">>)>>)>>)}
TmLines == {[k |-> "call", api |-> "TransformMarkLeaves", xs |-> <<[none |-> TRUE]>>, a |-> <<m>>, vs |-> <<>>] : m \in UNION {MarkPlacements(v) \cup {v} : v \in TmVals}}
\* conversion functions built for representative target types (stdlib.MakeToFunc): every source value (known, null, unknown, marked,
\* nested unknown) of primitive, collection and structural types, including collections whose element type is an object or a tuple
ToTargets == {TStr, TNum, TBool, TList(TStr), TSet(TStr), TMap(TStr), TList(TDyn), TSet(TDyn), TMap(TDyn), TDyn, TList(TObj([a |-> TStr])), TObj([a |-> TStr, b |-> TNum])}
ToSrcT == PrimTypes \cup VT1 \cup TakeN(VT2, 6) \cup {TList(TObj([a |-> TNum])), TSet(TTup(<<TNum, TStr>>)), TMap(TList(TObj([a |-> TNum]))), TList(TTup(<<TStr>>)), TMap(TObj([a |-> TNum, b |-> TStr]))}
ToLines == UNION {{[k |-> "call", api |-> "fn:to", xs |-> [i \in 1..Len(SetToSeq(ToTargets)) |-> [ty |-> SetToSeq(ToTargets)[i]]], a |-> <<v>>, vs |-> <<>>]
                   : v \in TakeN(Vals(t, W), 4) \cup {Null(t), Unk(t, NoRf), Unk(t, [null |-> "F"]), DynVal, WithMk(Unk(t, NoRf), <<"m1">>)} \cup UNION {TakeN(Weak1(x, TRUE), 2) \cup TakeN(MarkNested(x, <<"m2">>), 1) : x \in TakeN(Vals(t, W), 2)}} : t \in ToSrcT}
Lines == IF Fam = "to" THEN ToLines ELSE IF Fam = "convert" THEN ConvLines ELSE CtorLines \cup MarkApiLines \cup DupKeyLines \cup HetLines \cup PredLines \cup TmLines
ASSUME LET sq == SetToSeq(Lines) IN ndJsonSerialize(IOEnv.VOUT, sq) /\ PrintT(<<"GEN", Len(sq)>>)
VARIABLE x
Init == x = 0
Next == UNCHANGED x
=============================================================================
