INIT Init
NEXT Next
