SPECIFICATION PSpec
INVARIANTS PEmit PTypeOK
CHECK_DEADLOCK FALSE
