------------------------------ MODULE PSetTrace -----------------------------
EXTENDS PathSetSM
Trace == ndJsonDeserialize(IOEnv.VTRACE)
VARIABLES l, cnt, model
AsSet(sq) == {sq[i] : i \in 1..Len(sq)}
PTarget(o) == IF o.op \in {"Add", "AddAllSteps", "Remove"} THEN {o.s} ELSE IF o.op \in PBinary THEN {o.u} ELSE {}
POpFailed(e, m2) ==
  IF Has(e, "panic") THEN {"C19.PathSetOpPanics"} ELSE
  UNION {(IF AsSet(e.slots[s]) = m2[s] /\ Len(e.slots[s]) = Cardinality(m2[s]) THEN {}
          ELSE IF s \in PTarget(e.o) THEN {"C19.PathSetMatchesModel"} ELSE {"C19.PathSetMatchesModel", "C20.PathSetIsolation"}) : s \in PSlots}
  \cup (IF e.o.op = "Has" /\ e.res # (PPool[e.o.e].p \in m2[e.o.s]) THEN {"C19.PathSetHas"} ELSE {})
  \cup (IF e.o.op = "Equal" /\ e.res # (m2[e.o.s] = m2[e.o.t]) THEN {"C19.PathSetEqual"} ELSE {})
  \cup (IF e.o.op = "Empty" /\ e.res # (m2[e.o.s] = {}) THEN {"C19.PathSetEmpty"} ELSE {})
Init == l = 1 /\ cnt = [events |-> 0, nontrivial |-> 0, behaviours |-> 0] /\ model = [s \in PSlots |-> {}]
        /\ psets = [s \in PSlots |-> {}] /\ phist = <<>>
Next == /\ l <= Len(Trace)
        /\ LET e == Trace[l] IN
           IF e.ev = "preset"
           THEN /\ model' = [s \in PSlots |-> {}]
                /\ (~(\A i \in 1..PP : e.pool[i] = PPool[i].p) => PrintT(<<"INCON", l, "PoolEcho">>))
                /\ cnt' = [cnt EXCEPT !.events = @ + 1, !.behaviours = @ + 1]
           ELSE LET m2 == PApply(model, e.o) IN
                /\ \A x \in POpFailed(e, m2) : PrintT(<<"VIOL", l, x>>)
                /\ model' = m2
                /\ cnt' = [cnt EXCEPT !.events = @ + 1, !.nontrivial = @ + (IF m2 # model THEN 1 ELSE 0)]
        /\ l' = l + 1 /\ UNCHANGED <<psets, phist>>
        /\ (l = Len(Trace) => PrintT(<<"DONE", l, cnt'>>))
=============================================================================
