INIT Init
NEXT Next
INVARIANTS WeakAdmitted AdmitsRefl AdmitsTrans WeakWellFormed UnmarkIdem RefAlgebra
