INIT Init
NEXT Next
