INIT Init
NEXT Next
