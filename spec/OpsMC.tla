------------------------------- MODULE OpsMC --------------------------------
(* Design level: the vocabulary used as oracle is itself sane on the bounded  *)
(* universe: every generated weakening really is admitted (so generators and  *)
(* the Admits relation agree), Admits is reflexive and transitive, and the    *)
(* reference semantics obeys elementary algebra.                              *)
EXTENDS Ops
VARIABLES t, v, w, u
Smp(S) == TakeN(S, 12)
Init == /\ t \in PrimTypes \cup VT1 \cup TakeN(VT2, 4)
        /\ v \in Smp(AllVals(t))
        /\ w \in Weak1(v, FALSE) \cup {v}
        /\ u \in TakeN(Weak1(w, TRUE), 6) \cup {w}
Next == UNCHANGED <<t, v, w, u>>
WeakAdmitted == Admits(w, v) /\ Admits(u, w)
AdmitsRefl == Admits(v, v) /\ Admits(w, w)
AdmitsTrans == Admits(u, v)
WeakWellFormed == WellFormed(v) /\ WellFormed(w) /\ WellFormed(u)
UnmarkIdem == UnmarkDeep(UnmarkDeep(v)) = UnmarkDeep(v) /\ MarksIn(UnmarkDeep(w)) = {}
RefAlgebra ==
  (t.k = "number" /\ v.st = "k") =>
     LET x == v IN
     /\ Match(Ref("Add", <<x, NumV(0)>>, <<>>).val, x)
     /\ (~IsInfN(x.v) => Match(Ref("Subtract", <<x, x>>, <<>>).val, NumV(0)))
     /\ Ref("LessThan", <<x, x>>, <<>>).val = BoolV(FALSE)
     /\ Ref("Equals", <<x, x>>, <<>>).val = BoolV(TRUE)
     /\ (~IsInfN(x.v) => Match(Ref("Negate", <<Ref("Negate", <<x>>, <<>>).val>>, <<>>).val, x))
=============================================================================
