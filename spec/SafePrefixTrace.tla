--------------------------- MODULE SafePrefixTrace --------------------------
EXTENDS SafePrefix, Json
Trace == ndJsonDeserialize(IOEnv.VTRACE)
VARIABLES l, cnt
Init == l = 1 /\ cnt = [events |-> 0, nontrivial |-> 0, shortened |-> 0]
Next == /\ l <= Len(Trace)
        /\ LET e == Trace[l] IN
           /\ \A x \in SafeFailed(e) : PrintT(<<"VIOL", l, x>>)
           /\ cnt' = [cnt EXCEPT !.events = @ + 1, !.nontrivial = @ + (IF Len(e.rec) > 0 THEN 1 ELSE 0),
                                 !.shortened = @ + (IF Len(e.rec) < Len(e.recfull) THEN 1 ELSE 0)]
        /\ l' = l + 1
        /\ (l = Len(Trace) => PrintT(<<"DONE", l, cnt'>>))
=============================================================================
