----------------------------- MODULE PathSetSM ------------------------------
(* cty.PathSet as a state machine over three slots holding mathematical sets  *)
(* of (abstract) paths.  Pool paths are chosen to collide in the hash (every  *)
(* index step hashes alike) and to differ in exactly one position.  [C19]     *)
EXTENDS Walk, Json
PSlots == {"s1", "s2", "s3"}
PPool == << [p |-> <<IdxStep(NumV(0)), AttrStep("a")>>, rep |-> 0],
            [p |-> <<IdxStep(NumV(4)), AttrStep("a")>>, rep |-> 0],
            [p |-> <<IdxStep(NumV(0)), AttrStep("a")>>, rep |-> 1],
            [p |-> <<AttrStep("a")>>, rep |-> 0],
            [p |-> <<AttrStep("a"), IdxStep(StrV(<<"a">>))>>, rep |-> 0],
            [p |-> <<AttrStep("a"), IdxStep(StrV(<<"b">>))>>, rep |-> 0],
            [p |-> <<>>, rep |-> 0],
            [p |-> <<IdxStep(StrV(<<"a">>))>>, rep |-> 0],
            [p |-> <<IdxStep(NumV(0))>>, rep |-> 0],
            [p |-> <<IdxStep(NumV(0)), AttrStep("b")>>, rep |-> 0],
            [p |-> <<IdxStep(NumV(4)), IdxStep(NumV(0))>>, rep |-> 0],
            [p |-> <<IdxStep(NumV(0)), IdxStep(NumV(4))>>, rep |-> 1],
            \* siblings under one index step: with the two above, six different paths in ONE hash bucket
            [p |-> <<IdxStep(NumV(4))>>, rep |-> 0],
            [p |-> <<IdxStep(NumV(8))>>, rep |-> 0],
            [p |-> <<IdxStep(NumV(12))>>, rep |-> 0],
            [p |-> <<IdxStep(StrV(<<"b">>))>>, rep |-> 0] >>
PP == Len(PPool)
Prefixes1(p) == {SubSeq(p, 1, i) : i \in 1..Len(p)}
VARIABLES psets, phist
pvars == <<psets, phist>>
PDepth == EnvInt("VDEPTH", 8)
PInit == psets = [s \in PSlots |-> {}] /\ phist = <<>>
PBinary == {"Union", "Intersection", "Subtract", "SymmetricDifference"}
PApply(st, o) ==
  CASE o.op = "Add" -> [st EXCEPT ![o.s] = @ \cup {PPool[o.e].p}]
    [] o.op = "AddAllSteps" -> [st EXCEPT ![o.s] = @ \cup Prefixes1(PPool[o.e].p)]
    [] o.op = "Remove" -> [st EXCEPT ![o.s] = @ \ {PPool[o.e].p}]
    [] o.op \in {"Has", "Equal", "Empty"} -> st
    [] o.op = "Union" -> [st EXCEPT ![o.u] = st[o.s] \cup st[o.t]]
    [] o.op = "Intersection" -> [st EXCEPT ![o.u] = st[o.s] \cap st[o.t]]
    [] o.op = "Subtract" -> [st EXCEPT ![o.u] = st[o.s] \ st[o.t]]
    [] o.op = "SymmetricDifference" -> [st EXCEPT ![o.u] = (st[o.s] \ st[o.t]) \cup (st[o.t] \ st[o.s])]
POps == {[op |-> x, s |-> s, e |-> e] : x \in {"Add", "AddAllSteps", "Remove", "Has"}, s \in PSlots, e \in 1..PP}
        \cup {[op |-> "Equal", s |-> s, t |-> t] : s \in PSlots, t \in PSlots}
        \cup {[op |-> "Empty", s |-> s] : s \in PSlots}
        \cup {[op |-> b, s |-> s, t |-> t, u |-> u] : b \in PBinary, s \in PSlots, t \in PSlots, u \in {"s3", "s1"}}
PDo(o) == Len(phist) < PDepth /\ psets' = PApply(psets, o) /\ phist' = Append(phist, o)
PNext == \E o \in POps : PDo(o)
PSpec == PInit /\ [][PNext]_pvars
PEmit == (Len(phist) = PDepth) => PrintT(ToJson([beh |-> phist, pool |-> PPool]))
PTypeOK == \A s \in PSlots : psets[s] \subseteq UNION {Prefixes1(PPool[i].p) \cup {PPool[i].p} : i \in 1..PP}
=============================================================================
