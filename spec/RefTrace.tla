------------------------------ MODULE RefTrace ------------------------------
EXTENDS StdlibRef, Json
Trace == ndJsonDeserialize(IOEnv.VTRACE)
VARIABLES l, cnt
Init == l = 1 /\ cnt = [events |-> 0, nontrivial |-> 0, decided |-> 0] @@ [f \in RefFns |-> 0]
Next == /\ l <= Len(Trace)
        /\ LET e == Trace[l] IN
           /\ \A x \in RefFailed(e) \cup (IF e.r.ok /\ ~WellFormed(e.r.val) THEN {"C06.WellFormed"} ELSE {}) : PrintT(<<"VIOL", l, x>>)
           /\ cnt' = [cnt EXCEPT !.events = @ + 1, !.decided = @ + (IF RefDecided(e) THEN 1 ELSE 0),
                                 !.nontrivial = @ + (IF RefDecided(e) /\ e.r.ok THEN 1 ELSE 0),
                                 ![IF e.fn \in RefFns THEN e.fn ELSE "events"] = @ + (IF e.fn \in RefFns /\ RefDecided(e) THEN 1 ELSE 0)]
        /\ l' = l + 1
        /\ (l = Len(Trace) => PrintT(<<"DONE", l, cnt'>>))
=============================================================================
