---------------------------- MODULE MsgpackTrace ----------------------------
EXTENDS Msgpack, Json
Trace == ndJsonDeserialize(IOEnv.VTRACE)
VARIABLES l, cnt
RECURSIVE BoundsRanked(_)
BoundsRanked(v) == IF v.st = "unk" THEN RfRanked(v.rf) ELSE \A m \in Members(v) : BoundsRanked(m)
Prem(e) == BoundsRanked(e.v) /\ (e.back.ok => BoundsRanked(e.back.val))
Init == l = 1 /\ cnt = [events |-> 0, nontrivial |-> 0, unknownparts |-> 0]
Next == /\ l <= Len(Trace)
        /\ LET e == Trace[l] IN
           /\ (~Prem(e) => PrintT(<<"INCON", l, "UnrankedBound">>))
           /\ (Prem(e) => \A x \in MpFailed(e) \cup Reread(e) : PrintT(<<"VIOL", l, x>>))
           /\ cnt' = [cnt EXCEPT !.events = @ + 1, !.nontrivial = @ + (IF e.m.ok /\ e.back.ok THEN 1 ELSE 0),
                                 !.unknownparts = @ + (IF e.m.ok /\ ~WhollyKnown(e.v) THEN 1 ELSE 0)]
        /\ l' = l + 1
        /\ (l = Len(Trace) => PrintT(<<"DONE", l, cnt'>>))
=============================================================================
