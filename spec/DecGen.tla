-------------------------------- MODULE DecGen -------------------------------
EXTENDS Decoders, Json
Fam == IOEnv.VFAM
\* (A) refinement maps: every sequence of up to 2 entries (thorough 3) over good and ill-typed values, with truthful and lying map lengths
RfSeqs == SeqsUpTo(Entries, IF Thorough THEN 2 ELSE 2)
RfTargets == <<TNum, TStr, TList(TStr), TBool, TDyn, TSet(TNum)>>
RfLines == {[k |-> "mp", tok |-> MUnkRf(rf, n), targets |-> RfTargets,
             mustfail |-> [i \in 1..Len(RfTargets) |-> n = -1 /\ MustFail(rf, RfTargets[i])]]
            : rf \in RfSeqs, n \in {-1}} \cup
           {[k |-> "mp", tok |-> MUnkRf(rf, n), targets |-> RfTargets, mustfail |-> [i \in 1..Len(RfTargets) |-> FALSE]]
            : rf \in TakeN(RfSeqs, 60), n \in {0, 1, 3, 70000}}
\* (B) structural token trees
Atoms == {MNil, MBool(TRUE), MInt(0), MInt(1), MInt(-1), MInt(300), MFloat(2), MFloat(999), MFloat(998), MStr(<<>>), MStr(<<"a">>), MBin(<<"a">>), MUnk,
          MExt(12, 0), MExt(12, 2), MExt(5, 4), MExt(12, 2000), MUnkRf(<<MP(MInt(1), MBool(FALSE))>>, -1)}
TypeStrs == {MStr(<<"\"", "s", "t", "r", "i", "n", "g", "\"">>), MStr(<<"[", "\"", "l", "i", "s", "t", "\"", "]">>), MStr(<<"n", "u", "l", "l">>), MStr(<<"{", "}">>),
             MBin(<<"\"", "n", "u", "m", "b", "e", "r", "\"">>), MBin(<<"[", "\"", "l", "i", "s", "t", "\"", ",", "n", "u", "l", "l", "]">>),
             MBin(<<"[", "\"", "t", "u", "p", "l", "e", "\"", ",", "[", "n", "u", "l", "l", "]", "]">>), MBin(<<"x">>), MBin(<<>>)}
T1 == Atoms
      \cup {MArr(s, n) : s \in SeqsUpTo(TakeN(Atoms, 7), 2), n \in {-1}}
      \cup {MArr(s, n) : s \in SeqsUpTo(TakeN(Atoms, 3), 1), n \in {2, 70000, 2147483647}}
      \cup {MMap(<<MP(k, v)>>, n) : k \in {MStr(<<"a">>), MStr(<<"b">>), MInt(1), MNil}, v \in TakeN(Atoms, 7), n \in {-1}}
      \cup {MMap(<<MP(MStr(<<"a">>), v), MP(MStr(<<"a">>), w)>>, -1) : v \in TakeN(Atoms, 4), w \in TakeN(Atoms, 4)}
      \cup {MMap(<<MP(MStr(<<"a">>), MInt(1))>>, n) : n \in {0, 2, 70000, 2147483647}}
      \cup {MArr(<<ty, v>>, -1) : ty \in TypeStrs, v \in TakeN(Atoms, 6)}          \* dynamic wrappers [type JSON, value]
T2 == T1 \cup {MArr(<<x, y>>, -1) : x \in TakeN(T1 \ Atoms, 25), y \in TakeN(T1, 6)}
         \cup {MMap(<<MP(MStr(<<"a">>), x), MP(MStr(<<"b">>), y)>>, -1) : x \in TakeN(T1 \ Atoms, 25), y \in TakeN(Atoms, 4)}
\* members under a placeholder element type: every sequence of up to 3 typed wrappers / untyped members (nil, unknown), as arrays and as maps
\* (members of different types next to and around untyped ones)
MBinS(str) == MBin(<<"\"">> \o str \o <<"\"">>)
MWraps == {MArr(<<MBinS(<<"s", "t", "r", "i", "n", "g">>), MStr(<<"a">>)>>, -1), MArr(<<MBinS(<<"n", "u", "m", "b", "e", "r">>), MInt(1)>>, -1),
           MArr(<<MBinS(<<"b", "o", "o", "l">>), MBool(TRUE)>>, -1), MNil, MUnk}
MKeys == <<MStr(<<"a">>), MStr(<<"b">>), MStr(<<"c">>)>>
TDynMembers == {MArr(s, -1) : s \in SeqsUpTo(MWraps, 3)} \cup {MMap([i \in 1..Len(s) |-> MP(MKeys[i], s[i])], -1) : s \in SeqsUpTo(MWraps, 3)}
\* maps whose keys are two spellings (normalized and not) of ONE attribute name / key, alone, together and next to another key
NfKeys == {<<"eacute">>, <<"e", "acute">>, <<"a">>}
NfMaps == {MMap(<<MP(MStr(k1), v), MP(MStr(k2), w)>>, -1) : k1 \in NfKeys, k2 \in NfKeys, v \in {MStr(<<"a">>), MInt(1)}, w \in {MStr(<<"b">>)}}
          \cup {MMap(<<MP(MStr(k), MStr(<<"a">>))>>, -1) : k \in NfKeys}
          \cup {MArr(<<MMap(<<MP(MStr(<<"eacute">>), MStr(<<"a">>)), MP(MStr(<<"e", "acute">>), MStr(<<"b">>))>>, -1)>>, -1)}
StructTargets == <<TObj([eacute |-> TStr, a |-> TStr]), TObj([eacute |-> TStr]), TList(TObj([eacute |-> TStr, a |-> TStr])), TNum, TStr, TBool, TDyn, TList(TNum), TList(TDyn), TSet(TStr), TMap(TNum), TMap(TDyn), TTup(<<TNum, TStr>>), TTup(<<TDyn>>),
                   TObj([a |-> TNum, b |-> TStr]), TObj([a |-> TDyn]), TList(TList(TNum)), TSet(TDyn)>>
StructLines == {[k |-> "mp", tok |-> t, targets |-> StructTargets, mustfail |-> [i \in 1..Len(StructTargets) |-> FALSE]] : t \in (IF Thorough THEN T2 ELSE T1 \cup TakeN(T2 \ T1, 250)) \cup TDynMembers \cup NfMaps}
\* (C) JSON documents x unrelated targets, and type descriptions for json.UnmarshalType
JLeaf == {JNull, JBool(TRUE), JNum(Qn(4)), JNum([lm |-> "u64maxp"]), JStr(<<>>), JStr(<<"a">>)}
JD1 == JLeaf \cup {JArr(s) : s \in SeqsUpTo(TakeN(JLeaf, 4), 2)}
             \cup {JObj(<<>>)} \cup {JObj(<<Pair(<<k>>, v)>>) : k \in {"a", "b", "c"}, v \in TakeN(JLeaf, 4)}
             \cup {JObj(<<Pair(<<"a">>, v), Pair(<<k>>, w)>>) : k \in {"a", "b"}, v \in TakeN(JLeaf, 3), w \in TakeN(JLeaf, 3)}
             \cup {JObj(<<Pair(KW("value"), v), Pair(KW("type"), t)>>) : v \in TakeN(JLeaf, 4), t \in {JStr(KW("string")), JStr(KW("number")), JNull, JArr(<<JStr(KW("list")), JNull>>), JArr(<<JStr(KW("list"))>>), JStr(<<"x">>)}}
             \cup {JObj(<<Pair(KW("type"), t), Pair(KW("value"), v)>>) : v \in TakeN(JLeaf, 3), t \in {JStr(KW("string")), JArr(<<JStr(KW("tuple")), JArr(<<JNull>>)>>)}}
\* duplicate property names whose values are structures (objects, arrays) of equal and of different shapes
JDup == {JObj(<<Pair(<<"a">>, v), Pair(<<"a">>, w)>>) : v \in {JObj(<<>>), JArr(<<>>), JObj(<<Pair(<<"b">>, JNum(Qn(4)))>>), JArr(<<JNum(Qn(4))>>)}, w \in {JObj(<<>>), JArr(<<>>), JObj(<<Pair(<<"b">>, JStr(<<"x">>))>>), JArr(<<JBool(TRUE)>>)}}
        \cup {JArr(<<JObj(<<Pair(<<"a">>, JObj(<<>>)), Pair(<<"b">>, JNull), Pair(<<"a">>, JObj(<<>>))>>)>>)}
JW(t, v) == JObj(<<Pair(KW("value"), v), Pair(KW("type"), JStr(KW(t)))>>)
JWraps == {JW("string", JStr(<<"a">>)), JW("number", JNum(Qn(4))), JW("bool", JBool(TRUE)), JNull, JW("string", JNull)}
JKeys == <<<<"a">>, <<"b">>, <<"c">>>>
JDynMembers == {JArr(s) : s \in SeqsUpTo(JWraps, 3)} \cup {JObj([i \in 1..Len(s) |-> Pair(JKeys[i], s[i])]) : s \in SeqsUpTo(JWraps, 3)}
JNf == {JObj(<<Pair(k1, v), Pair(k2, JStr(<<"b">>))>>) : k1 \in NfKeys, k2 \in NfKeys, v \in {JStr(<<"a">>), JNum(Qn(4))}} \cup {JObj(<<Pair(k, JStr(<<"a">>))>>) : k \in NfKeys}
JD2 == JDup \cup JD1 \cup {JArr(<<x, y>>) : x \in TakeN(JD1 \ JLeaf, 20), y \in TakeN(JD1, 5)} \cup {JObj(<<Pair(<<"a">>, x), Pair(<<"b">>, y)>>) : x \in TakeN(JD1 \ JLeaf, 20), y \in TakeN(JLeaf, 3)}
JLines == {[k |-> "js", doc |-> d, targets |-> StructTargets] : d \in (IF Thorough THEN JD2 ELSE JD1 \cup JDup \cup TakeN(JD2 \ JD1, 150)) \cup JDynMembers \cup JNf}
\* type descriptions (valid and invalid)
TLeaf == {JStr(KW("string")), JStr(KW("number")), JStr(KW("bool")), JStr(KW("dynamic")), JStr(<<"x">>), JNull, JNum(Qn(4)), JBool(TRUE), JObj(<<>>), JArr(<<>>)}
TD1 == TLeaf \cup {JArr(<<JStr(KW(c)), t>>) : c \in {"list", "set", "map", "tuple", "object"}, t \in TLeaf}
             \cup {JArr(<<JStr(KW(c))>>) : c \in {"list", "tuple", "object"}}
             \cup {JArr(<<JStr(KW("tuple")), JArr(s)>>) : s \in SeqsUpTo(TakeN(TLeaf, 6), 2)}
             \cup {JArr(<<JStr(KW("object")), JObj(<<Pair(<<"a">>, t)>>)>>) : t \in TLeaf}
             \cup {JArr(<<JStr(KW("object")), JObj(<<Pair(<<"a">>, JStr(KW("string")))>>), o>>) : o \in {JArr(<<JStr(<<"a">>)>>), JArr(<<JStr(<<"b">>)>>), JArr(<<JNull>>), JNull, JStr(<<"a">>)}}
             \cup {JArr(<<JStr(KW("list")), t, t>>) : t \in TakeN(TLeaf, 3)}
TD2 == TD1 \cup {JArr(<<JStr(KW(c)), t>>) : c \in {"list", "map"}, t \in TakeN(TD1 \ TLeaf, 40)}
TLines == {[k |-> "jt", doc |-> d] : d \in TD2}
Lines == CASE Fam = "rf" -> RfLines [] Fam = "struct" -> StructLines [] Fam = "json" -> JLines \cup TLines
ASSUME LET sq == SetToSeq(Lines) IN ndJsonSerialize(IOEnv.VOUT, sq) /\ PrintT(<<"GEN", Len(sq)>>)
VARIABLE x
Init == x = 0
Next == UNCHANGED x
=============================================================================
