SPECIFICATION SessSpec
INVARIANTS SessEmit
CHECK_DEADLOCK FALSE
