INIT Init
NEXT Next
