---------------------------- MODULE SafePrefixGen ---------------------------
EXTENDS SafePrefix, Json
PMax == EnvInt("VPMAX", 2)
CMax == EnvInt("VCMAX", 1)
A == IF Env("VALPHA", "full") = "full" THEN AlphaSet(Alphabet) ELSE AlphaSet(SmallAlphabet)
Ps == SetToSeq(SeqsUpTo(A, PMax))
Cs == SetToSeq(SeqsUpTo(A, CMax))
ASSUME ndJsonSerialize(IOEnv.VOUT, <<[ps |-> Ps, cs |-> Cs]>>)
ASSUME PrintT(<<"GEN", Len(Ps) * Len(Cs)>>)
VARIABLE x
Init == x = 0
Next == UNCHANGED x
=============================================================================
