------------------------------ MODULE OpsTrace ------------------------------
(* Trace validation of recorded operation events against the Ops contract.  *)
(* Every line is judged; a failed premise is INCON (never a violation).      *)
EXTENDS Ops, Json
Trace == ndJsonDeserialize(IOEnv.VTRACE)
VARIABLES l, cnt
Prefix(e) == IF Has(e, "prop") THEN e.prop ELSE "C01"
Premise(e) ==
  CASE e.ev = "call" -> CallPremise(e)
    [] e.ev = "pair" /\ e.rel = "weak" -> WeakPremise(e)
    [] e.ev = "pair" /\ e.rel = "unmark" -> MarkPremise(e)
    [] OTHER -> FALSE
Failed(e) ==
  CASE e.ev = "call" -> CallFailed(e)
    [] e.ev = "pair" /\ e.rel = "weak" -> WeakFailed(e, Prefix(e))
    [] e.ev = "pair" /\ e.rel = "unmark" -> MarkFailed(e)
Nontrivial(e) ==
  CASE e.ev = "call" -> CallNontrivial(e)
    [] e.ev = "pair" /\ e.rel = "weak" -> WeakNontrivial(e)
    [] e.ev = "pair" /\ e.rel = "unmark" -> MarkNontrivial(e)
Init == l = 1 /\ cnt = [events |-> 0, nontrivial |-> 0, incon |-> 0, okcalls |-> 0]
Next == /\ l <= Len(Trace)
        /\ LET e == Trace[l]
               p == Premise(e) IN
           /\ (~p /\ ~BuiltBreaks(e) => PrintT(<<"INCON", l, "Premise">>))
           /\ (~p /\ BuiltBreaks(e) => PrintT(<<"VIOL", l, Prefix(e) \o ".PlaceholderAdmitsReplacedPart">>))
           /\ (p => \A r \in Failed(e) : PrintT(<<"VIOL", l, r>>))
           /\ cnt' = [cnt EXCEPT !.events = @ + 1,
                                 !.incon = @ + (IF p THEN 0 ELSE 1),
                                 !.nontrivial = @ + (IF p /\ Nontrivial(e) THEN 1 ELSE 0),
                                 !.okcalls = @ + (IF e.ev = "call" THEN (IF e.r.ok THEN 1 ELSE 0) ELSE (IF e.rb.ok THEN 1 ELSE 0))]
        /\ l' = l + 1
        /\ (l = Len(Trace) => PrintT(<<"DONE", l, cnt'>>))
=============================================================================
