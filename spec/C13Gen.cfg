INIT Init
NEXT Next
