------------------------------- MODULE C07MC --------------------------------
(* Design level: the vocabulary itself obeys the algebra the property states, *)
(* so that it can serve as the oracle for the observed code.                  *)
EXTENDS C07Types
VARIABLES a, b, c
Init == a \in U1 /\ b \in U1 /\ c \in {TDyn, TStr, TList(TDyn), TObj([a |-> TDyn]), TObjOpt([a |-> TStr], <<"a">>)}
Next == UNCHANGED <<a, b, c>>
EqIsIdentity == TEquals(a, b) <=> (a = b)
EqEquivalence == TEquals(a, a) /\ (TEquals(a, b) <=> TEquals(b, a)) /\ (TEquals(a, c) /\ TEquals(c, b) => TEquals(a, b))
ConformsCharacterised == Conforms(a, b) <=> ConformsBySubst(a, b)
ConformsRefl == Conforms(a, a)
ConformsTrans == (Conforms(a, c) /\ Conforms(c, b)) => Conforms(a, b)
ConformsNoDyn == (~HasDyn(b) /\ Conforms(a, b)) => TEquals(StripOpt(a), StripOpt(b))
StripIdem == StripOpt(StripOpt(a)) = StripOpt(a) /\ ~HasOpt(StripOpt(a))
StripOnlyOpt == (HasDyn(StripOpt(a)) = HasDyn(a)) /\ Conforms(StripOpt(a), a) /\ Conforms(a, StripOpt(a))
=============================================================================
