---------------------------- MODULE PathBuildSM -----------------------------
(* Building cty.Path values step by step (Path.Index / IndexInt / IndexString  *)
(* / GetAttr / Copy) as a state machine over three registers holding abstract  *)
(* paths (sequences of steps).  A path is a value: extending one path never    *)
(* changes another, however they were derived from each other.   [C19, C20]    *)
EXTENDS Walk, Json
BRegs == {"cur", "s1", "s2"}
BSteps == <<IdxStep(NumV(0)), IdxStep(NumV(4)), AttrStep("a"), AttrStep("b"), IdxStep(StrV(<<"a">>))>>
NS == Len(BSteps)
VARIABLES bregs, bhist
bvars == <<bregs, bhist>>
BDepth == EnvInt("VDEPTH", 9)
BInit == bregs = [r \in BRegs |-> <<>>] /\ bhist = <<>>
BApply(st, o) ==
  CASE o.op = "Push" -> [st EXCEPT !.cur = Append(@, BSteps[o.k])]
    [] o.op = "Fork" -> [st EXCEPT ![o.r] = Append(st.cur, BSteps[o.k])]
    [] o.op = "Save" -> [st EXCEPT ![o.r] = st.cur]
    [] o.op = "Load" -> [st EXCEPT !.cur = st[o.r]]
    [] o.op = "Copy" -> st
    [] o.op = "Reset" -> [st EXCEPT !.cur = <<>>]
BOps == {[op |-> "Push", k |-> k] : k \in 1..NS} \cup {[op |-> "Fork", r |-> r, k |-> k] : r \in {"s1", "s2"}, k \in 1..NS}
        \cup {[op |-> x, r |-> r] : x \in {"Save", "Load"}, r \in {"s1", "s2"}} \cup {[op |-> "Copy"], [op |-> "Reset"]}
BDo(o) == Len(bhist) < BDepth /\ Len(bregs.cur) < 7 /\ bregs' = BApply(bregs, o) /\ bhist' = Append(bhist, o)
BNext == \E o \in BOps : BDo(o)
BSpec == BInit /\ [][BNext]_bvars
BEmit == (Len(bhist) = BDepth) => PrintT(ToJson([beh |-> bhist, steps |-> BSteps]))
\* the fan family: a parent of every length 0..6, several children derived from it, grandchildren, re-derivation
Fan(L, a, b, c) == [i \in 1..L |-> [op |-> "Push", k |-> ((i - 1) % NS) + 1]]
                   \o <<[op |-> "Fork", r |-> "s1", k |-> a], [op |-> "Fork", r |-> "s2", k |-> b], [op |-> "Push", k |-> c],
                        [op |-> "Load", r |-> "s1"], [op |-> "Push", k |-> b], [op |-> "Fork", r |-> "s2", k |-> a], [op |-> "Fork", r |-> "s1", k |-> c]>>
Fans == {Fan(L, a, b, c) : L \in 0..6, a \in 1..NS, b \in {1, 3}, c \in {2, 4}}
=============================================================================
