INIT Init
NEXT Next
