INIT Init
NEXT Next
