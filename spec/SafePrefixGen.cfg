INIT Init
NEXT Next
