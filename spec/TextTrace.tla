------------------------------ MODULE TextTrace -----------------------------
(* Trace validation of recorded calls of the number / string / formatting /   *)
(* encoding functions against the reference semantics TRef.           [C14]  *)
EXTENDS TextRef, Json
Trace == ndJsonDeserialize(IOEnv.VTRACE)
VARIABLES l, cnt
CntKey(f) == IF f = "jsonencode>jsondecode" THEN "jsonroundtrip" ELSE f
CntKeys == {CntKey(f) : f \in TRefFns}
\* anti-vacuity: successful, decided format calls per verb letter (fmts, fmtd, fmtv, fmtq, fmtt)
FmtVerbs == {"s", "d", "v", "q", "t"}
FmtKey(c) == "fmt" \o c
FmtKeys == {FmtKey(c) : c \in FmtVerbs}
VerbOfKey(k) == CHOOSE c \in FmtVerbs : k = FmtKey(c)
HasVerb(e, c) == e.fn = "format" /\ Len(e.a) >= 1 /\ e.a[1].st = "k" /\ c \in {StrOf(e.a[1])[i] : i \in 1..Len(StrOf(e.a[1]))}
Init == l = 1 /\ cnt = [events |-> 0, nontrivial |-> 0, decided |-> 0, rejected |-> 0] @@ [f \in CntKeys |-> 0] @@ [k \in FmtKeys |-> 0]
Bump(k, e, d) ==
  IF k = "events" THEN 1
  ELSE IF k = "decided" THEN (IF d THEN 1 ELSE 0)
  ELSE IF k = "nontrivial" THEN (IF d /\ e.r.ok THEN 1 ELSE 0)
  ELSE IF k = "rejected" THEN (IF d /\ ~e.r.ok THEN 1 ELSE 0)
  ELSE IF k \in FmtKeys THEN (IF d /\ e.r.ok /\ HasVerb(e, VerbOfKey(k)) THEN 1 ELSE 0)
  ELSE (IF d /\ e.fn \in TRefFns /\ k = CntKey(e.fn) THEN 1 ELSE 0)
Next == /\ l <= Len(Trace)
        /\ LET e == Trace[l]
               d == TRefDecided(e) IN
           /\ \A x \in TRefFailed(e) \cup (IF e.r.ok /\ ~WellFormed(e.r.val) THEN {"C06.WellFormed"} ELSE {})
                       \cup (IF Len(e.rs) = 1 THEN {} ELSE {"C20.Pure"}) : PrintT(<<"VIOL", l, x>>)
           /\ cnt' = [k \in DOMAIN cnt |-> cnt[k] + Bump(k, e, d)]
        /\ l' = l + 1
        /\ (l = Len(Trace) => PrintT(<<"DONE", l, cnt'>>))
=============================================================================
