------------------------------ MODULE TextTrace -----------------------------
(* Trace validation of recorded calls of the number / string / formatting /   *)
(* encoding functions against the reference semantics TRef.           [C14]  *)
EXTENDS TextRef, Json
Trace == ndJsonDeserialize(IOEnv.VTRACE)
VARIABLES l, cnt
CntKey(f) == IF f = "jsonencode>jsondecode" THEN "jsonroundtrip" ELSE f
CntKeys == {CntKey(f) : f \in TRefFns}
Init == l = 1 /\ cnt = [events |-> 0, nontrivial |-> 0, decided |-> 0, rejected |-> 0] @@ [f \in CntKeys |-> 0]
Next == /\ l <= Len(Trace)
        /\ LET e == Trace[l]
               d == TRefDecided(e) IN
           /\ \A x \in TRefFailed(e) \cup (IF e.r.ok /\ ~WellFormed(e.r.val) THEN {"C06.WellFormed"} ELSE {})
                       \cup (IF Len(e.rs) = 1 THEN {} ELSE {"C20.Pure"}) : PrintT(<<"VIOL", l, x>>)
           /\ cnt' = [cnt EXCEPT !.events = @ + 1, !.decided = @ + (IF d THEN 1 ELSE 0),
                                 !.nontrivial = @ + (IF d /\ e.r.ok THEN 1 ELSE 0),
                                 !.rejected = @ + (IF d /\ ~e.r.ok THEN 1 ELSE 0),
                                 ![IF e.fn \in TRefFns THEN CntKey(e.fn) ELSE "events"] = @ + (IF e.fn \in TRefFns /\ d THEN 1 ELSE 0)]
        /\ l' = l + 1
        /\ (l = Len(Trace) => PrintT(<<"DONE", l, cnt'>>))
=============================================================================
