--------------------------- MODULE PathBuildFans ----------------------------
EXTENDS PathBuildSM
ASSUME LET sq == SetToSeq(Fans) IN ndJsonSerialize(IOEnv.VOUT, [i \in 1..Len(sq) |-> [beh |-> sq[i], steps |-> BSteps]]) /\ PrintT(<<"GEN", Len(sq)>>)
VARIABLE x
Init == x = 0 /\ BInit
Next == UNCHANGED <<x, bvars>>
=============================================================================
