------------------------------- MODULE Msgpack ------------------------------
(***************************************************************************)
(* MessagePack codec, relational contract over (original, constraint,      *)
(* decoded) triples.                                               [C16]   *)
(*   RtOK(o, b): b is what a faithful round trip of o may give:            *)
(*     - same type and same known-ness at every position                   *)
(*     - known parts equal; whole numbers and exact float64 numbers        *)
(*       identical, other numbers at least cty-equal (leaf flag "eq")      *)
(*     - an unknown part admits everything the original admitted: its      *)
(*       refinements may be weaker (approximated) but never narrower or    *)
(*       invented                                                          *)
(***************************************************************************)
EXTENDS Values
NumLeafOK(o, b) == IF IsWholeN(o) \/ IsF64N(o) THEN (IF HasRank(o) /\ HasRank(b) THEN NumSame(o, b) ELSE [x \in DOMAIN o \ {"w", "f"} |-> o[x]] = [x \in DOMAIN b \ {"w", "f"} |-> b[x]])
                   ELSE TRUE      \* other numbers: judged by the recorded Equals of the whole value
RECURSIVE RtOK(_, _)
RtOK(o, b) ==
  /\ TEquals(o.ty, b.ty) /\ o.st = b.st
  /\ CASE o.st = "null" -> TRUE
       [] o.st = "unk" -> Admits(b, o)
       [] OTHER ->
            CASE o.ty.k = "number" -> NumLeafOK(o.v, b.v)
              [] o.ty.k \in {"list", "tuple"} -> Len(Elems(o)) = Len(Elems(b)) /\ \A i \in 1..Len(Elems(o)) : RtOK(Elems(o)[i], Elems(b)[i])
              [] o.ty.k = "set" -> Len(Elems(o)) = Len(Elems(b)) /\ \A i \in 1..Len(Elems(o)) : \E k \in 1..Len(Elems(b)) : RtOK(Elems(o)[i], Elems(b)[k])
              [] o.ty.k \in {"map", "object"} -> DOMAIN Attrs(o) = DOMAIN Attrs(b) /\ \A n \in DOMAIN Attrs(o) : RtOK(Attrs(o)[n], Attrs(b)[n])
              [] OTHER -> o.v = b.v
\* positions where the encoding cannot carry the type (as for JSON): null / empty collection under a nested placeholder
RECURSIVE LossyM(_, _)
LossyM(v, ty) ==
  IF ty.k = "dynamic" THEN FALSE
  ELSE IF v.st # "k" THEN HasDyn(ty)
  ELSE CASE ty.k \in {"list", "set"} -> (Len(Elems(v)) = 0 /\ HasDyn(ty.e)) \/ \E i \in 1..Len(Elems(v)) : LossyM(Elems(v)[i], ty.e)
         [] ty.k = "map" -> (DOMAIN Attrs(v) = {} /\ HasDyn(ty.e)) \/ \E n \in DOMAIN Attrs(v) : LossyM(Attrs(v)[n], ty.e)
         [] ty.k = "tuple" -> \E i \in 1..Len(Elems(v)) : LossyM(Elems(v)[i], ty.es[i])
         [] ty.k = "object" -> \E n \in DOMAIN Attrs(v) : LossyM(Attrs(v)[n], ty.as[n])
         [] OTHER -> FALSE
\* event mp: [v, ty, m = [ok, len], back = R, eq = "T"|"F"|"U"|"P" (orig.Equals(back))]
MpFailed(e) ==
  \* bytes handed out by an earlier Marshal call are the caller's: a later call does not rewrite them
  (IF Has(e, "pb") /\ e.pb # e.pb2 THEN {"C16.RoundTrip", "C20.Immutable"} ELSE {}) \cup
  \* premise of the property: the value's type conforms to the constraint (otherwise only "no panic" is claimed)
  IF ~Conforms(e.v.ty, e.ty) THEN (IF (~e.m.ok /\ e.m.fail = "panic") \/ (e.m.ok /\ ~e.back.ok /\ e.back.fail = "panic") THEN {"C16.NoPanic"} ELSE {})
  ELSE IF MarksIn(e.v) # {} THEN (IF e.m.ok THEN {"C16.MarkedRejected"} ELSE IF e.m.fail = "panic" THEN {"C16.NoPanic"} ELSE {})
  ELSE IF ~e.m.ok THEN (IF e.m.fail = "panic" THEN {"C16.NoPanic"} ELSE {"C16.MarshalAcceptsConformingValue"})
  ELSE IF ~e.back.ok THEN (IF e.back.fail = "panic" THEN {"C16.NoPanic"} ELSE IF LossyM(e.v, e.ty) THEN {"C16.RoundTrip.NullOrEmptyUnderNestedPlaceholder"} ELSE {"C16.UnmarshalAcceptsOwnEncoding"})
  ELSE (IF RtOK(e.v, e.back.val) THEN {}
        ELSE IF LossyM(e.v, e.ty) THEN {"C16.RoundTrip.NullOrEmptyUnderNestedPlaceholder"} ELSE {"C16.RoundTrip"})
       \* an unknown number's own inclusive bounds are still admitted by the decoded range (a bound may be widened, never moved inward)
       \cup (IF Has(e, "bi") /\ \E i \in 1..Len(e.bi) : e.bi[i].inc /\ e.bi[i].ans = "F" THEN {"C16.RoundTrip"} ELSE {})
       \cup (IF WhollyKnown(e.v) /\ e.eq # "T" /\ ~LossyM(e.v, e.ty) THEN {"C16.KnownValueComesBackEqual"} ELSE {})
       \cup (IF WellFormed(e.back.val) THEN {} ELSE {"C06.WellFormed"})
=============================================================================
