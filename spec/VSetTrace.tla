------------------------------ MODULE VSetTrace -----------------------------
(* Trace validation of recorded ValueSet histories against ValueSetSM.        *)
EXTENDS ValueSetSM
Trace == ndJsonDeserialize(IOEnv.VTRACE)
VARIABLES l, cnt, model, echo, orders
tvars == <<l, cnt, model, echo, orders, sets, hist>>

KeyIdx(v, ec) == {i \in 1..Len(ec) : ec[i] = v}
KeyOf(v, ec) == Pool[CHOOSE i \in KeyIdx(v, ec) : TRUE].key
AllKnownMembers(ms, ec) == \A i \in 1..Len(ms) : KeyIdx(ms[i], ec) # {}
ObsBag(ms, ec) == [k \in Keys |-> Cardinality({i \in 1..Len(ms) : KeyOf(ms[i], ec) = k})]
KeySeq(ms, ec) == [i \in 1..Len(ms) |-> KeyOf(ms[i], ec)]
Target(o) == IF o.op \in {"Add", "Remove"} THEN {o.s} ELSE IF o.op \in {"Copy", "RoundTrip"} THEN {o.t}
             ELSE IF o.op \in Binary THEN {o.u} ELSE {}

OpFailed(e, m2) ==
  IF Has(e, "panic") THEN {"C03.SetOpPanics"} ELSE
  LET o == e.o IN
  UNION {
    IF ~AllKnownMembers(e.slots[s], echo) THEN {"C03.ForeignMember"}
    ELSE (IF ObsBag(e.slots[s], echo) = m2[s] THEN {}
          ELSE IF s \in Target(o) THEN {"C03.SetMatchesModel"} ELSE {"C03.SetMatchesModel", "C20.SetIsolation"})
         \cup (IF e.len[s] = Len(e.slots[s]) THEN {} ELSE {"C03.LengthAgrees"})
         \cup (IF \A i \in 1..Len(e.slots[s]) : WellFormed(e.slots[s][i]) THEN {} ELSE {"C06.WellFormed"})
    : s \in Slots}
  \cup (IF o.op = "Has" /\ e.res # BHas(m2[o.s], o.e) THEN {"C03.HasAgrees"} ELSE {})
  \cup (IF o.op = "RoundTrip" /\ (~WellFormed(e.setval) \/ e.setval.ty # TSet(TNum)) THEN {"C06.WellFormed"} ELSE {})
  \cup (IF \E s \in Slots : AllKnownMembers(e.slots[s], echo) /\ (\A k \in UnkKeys : ObsBag(e.slots[s], echo)[k] = 0)
                            /\ \E pr \in orders : pr[1] = {KeySeq(e.slots[s], echo)[i] : i \in 1..Len(e.slots[s])} /\ pr[2] # KeySeq(e.slots[s], echo)
        THEN {"C03.OrderDependsOnMembersOnly"} ELSE {})

NewOrders(e) == {<<{KeySeq(e.slots[s], echo)[i] : i \in 1..Len(e.slots[s])}, KeySeq(e.slots[s], echo)>> :
                   s \in {x \in Slots : AllKnownMembers(e.slots[x], echo) /\ (\A k \in UnkKeys : ObsBag(e.slots[x], echo)[k] = 0)}}

Init == l = 1 /\ cnt = [events |-> 0, nontrivial |-> 0, behaviours |-> 0] /\ model = [s \in Slots |-> NoMembers]
        /\ echo = <<>> /\ orders = {} /\ sets = [s \in Slots |-> NoMembers] /\ hist = <<>>
Next == /\ l <= Len(Trace)
        /\ LET e == Trace[l] IN
           IF e.ev = "vreset"
           THEN /\ model' = [s \in Slots |-> NoMembers] /\ echo' = e.pool /\ UNCHANGED orders
                /\ (Len(e.pool) # P => PrintT(<<"INCON", l, "PoolEcho">>))
                /\ cnt' = [cnt EXCEPT !.events = @ + 1, !.behaviours = @ + 1]
           ELSE LET m2 == Apply(model, e.o) IN
                /\ \A x \in OpFailed(e, m2) : PrintT(<<"VIOL", l, x>>)
                /\ model' = m2 /\ UNCHANGED echo
                /\ orders' = IF Has(e, "panic") \/ \E s \in Slots : ~AllKnownMembers(e.slots[s], echo) THEN orders ELSE orders \cup NewOrders(e)
                /\ cnt' = [cnt EXCEPT !.events = @ + 1, !.nontrivial = @ + (IF m2 # model THEN 1 ELSE 0)]
        /\ l' = l + 1 /\ UNCHANGED <<sets, hist>>
        /\ (l = Len(Trace) => PrintT(<<"DONE", l, cnt'>>))
=============================================================================
