-------------------------------- MODULE Unify -------------------------------
(* Contract of convert.Unify / UnifyUnsafe.  The property does not fix WHICH  *)
(* type is chosen, only that the answer is coherent:  [C09]                   *)
(*   event = [types, unsafe, r = [ok, t], other = result in the other mode,   *)
(*            convs = <<[nil, safeavail, apps = <<[in, r]>>]>>]               *)
EXTENDS Values
PlaceholderFree(ts) == \A i \in 1..Len(ts) : ~HasDyn(ts[i])
AllEqual(ts) == \A i \in 1..Len(ts) : TEquals(ts[i], ts[1])
UnifyFailed(e) ==
  LET ts == e.types  r == e.r IN
  (IF Has(r, "panic") \/ Has(e.other, "panic") THEN {"C09.NoPanic"} ELSE {})
  \* the list handed to Unify and the input types themselves report the same afterwards (the returned conversions are
  \* positional: they are meaningless against a list that changed under the caller)
  \cup (IF Has(e, "it") /\ e.it # e.it2 THEN {"C09.InputTypesUnchanged", "C20.Immutable"} ELSE {})
  \cup (IF r.ok THEN
         (IF Len(e.convs) = Len(ts) THEN {} ELSE {"C09.OneConversionPerInput"})
         \cup (IF \A i \in 1..Len(e.convs) : \A k \in 1..Len(e.convs[i].apps) :
                    LET a == e.convs[i].apps[k] IN
                    (a.r.ok => Conforms(a.r.val.ty, r.t) /\ (~HasDyn(r.t) => TEquals(a.r.val.ty, r.t)))
               THEN {} ELSE {"C09.ConvYieldsUnified"})
         \cup (IF \E i \in 1..Len(e.convs) : \E k \in 1..Len(e.convs[i].apps) : ~e.convs[i].apps[k].r.ok /\ e.convs[i].apps[k].r.fail = "panic"
               THEN {"C09.NoPanic"} ELSE {})
         \cup (IF PlaceholderFree(ts) /\ \E i \in 1..Len(e.convs) : e.convs[i].nil # TEquals(ts[i], r.t) THEN {"C09.NilIffEqual"} ELSE {})
         \cup (IF ~e.unsafe /\ PlaceholderFree(ts) /\ \E i \in 1..Len(e.convs) : \E k \in 1..Len(e.convs[i].apps) : ~e.convs[i].apps[k].r.ok
               THEN {"C09.SafeNeverFails"} ELSE {})
         \cup (IF ~e.unsafe /\ \E i \in 1..Len(e.convs) : ~e.convs[i].nil /\ ~e.convs[i].safeavail THEN {"C09.SafeUsesNoUnsafe"} ELSE {})
         \cup (IF ~e.unsafe /\ PlaceholderFree(ts) /\ ~e.other.ok THEN {"C09.SafeOkImpliesUnsafeOk"} ELSE {})
         \cup (IF \A i \in 1..Len(e.convs) : \A k \in 1..Len(e.convs[i].apps) : e.convs[i].apps[k].r.ok => WellFormed(e.convs[i].apps[k].r.val)
               THEN {} ELSE {"C06.WellFormed"})
        ELSE {})
  \cup (IF AllEqual(ts) /\ ~(r.ok /\ TEquals(r.t, ts[1]) /\ \A i \in 1..Len(e.convs) : e.convs[i].nil) THEN {"C09.EqualTypesUnifyToThemselves"} ELSE {})
UnifyNontrivial(e) == e.r.ok /\ ~AllEqual(e.types)
=============================================================================
