SPECIFICATION SSpec
INVARIANTS KnownAtMostOnce AlgebraLaws
VIEW View
CHECK_DEADLOCK FALSE
