INIT Init
NEXT Next
INVARIANTS EqIsIdentity EqEquivalence ConformsCharacterised ConformsRefl ConformsTrans ConformsNoDyn StripIdem StripOnlyOpt
