INIT Init
NEXT Next
