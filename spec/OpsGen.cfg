INIT Init
NEXT Next
