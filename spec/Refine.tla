------------------------------- MODULE Refine -------------------------------
(***************************************************************************)
(* The refinement builder (cty.Value.Refine ... NewValue) as a state       *)
(* machine.  State: the value being refined (orig), the model range r of   *)
(* everything admitted by orig's own range and the constraints stated so   *)
(* far, the history of constraints (said) and whether a call was rejected. *)
(* One action per builder method.  [C05]                                   *)
(***************************************************************************)
EXTENDS Values

(***************************************************************************)
(* Calls                                                                   *)
(***************************************************************************)
CNotNull == [c |-> "NotNull"]
CNull    == [c |-> "Null"]
CLo(n, inc) == [c |-> "LowerBound", n |-> n, inc |-> inc]
CHi(n, inc) == [c |-> "UpperBound", n |-> n, inc |-> inc]
CLenLo(k) == [c |-> "LenLower", k |-> k]
CLenHi(k) == [c |-> "LenUpper", k |-> k]
CPrefix(p) == [c |-> "PrefixFull", p |-> p]
\* shorthands of the builder API, each documented as the composition of two primitive calls
\* (CollectionLength = lower o upper bound; NumberRangeInclusive = inclusive lower o inclusive upper bound)
\* and the safe prefix constructor (StringPrefix = StringPrefixFull of the safe part of the prefix)
CLen(k) == [c |-> "LenExact", k |-> k]
CRange(lo, hi) == [c |-> "RangeIncl", lo |-> lo, hi |-> hi]
CPrefixSafe(p) == [c |-> "PrefixSafe", p |-> p]
\* over the plain-letter alphabet of this module every letter may combine with a following mark, so the
\* safe part of a prefix is the prefix without its last letter (ctystrings.SafeKnownPrefix; the Unicode-risk
\* alphabet is the subject of SafePrefix.tla)
SafePart(p) == IF p = <<>> THEN <<>> ELSE SubSeq(p, 1, Len(p) - 1)

BoundNums == {Qn(-4), Qn(0), Qn(4), Qn(8)}
PrefixMenu == {<<>>, <<"a">>, <<"a", "b">>, <<"b">>, <<"a", "b", "c">>}
CallsFor(t) ==
  {CNotNull, CNull} \cup
  CASE t.k = "number" -> {CLo(n, i) : n \in BoundNums, i \in BOOLEAN} \cup {CHi(n, i) : n \in BoundNums, i \in BOOLEAN}
                         \cup {CLo(NInf, TRUE), CHi(PInf, TRUE), CLo(PInf, TRUE), CHi(NInf, TRUE)}
                         \cup {CRange(lo, hi) : lo \in {Qn(0), Qn(4), NInf}, hi \in {Qn(0), Qn(4), PInf}}
    [] t.k = "string" -> {CPrefix(p) : p \in PrefixMenu} \cup {CPrefixSafe(p) : p \in PrefixMenu}
    [] IsCollT(t) -> {CLenLo(k) : k \in 0..3} \cup {CLenHi(k) : k \in 0..3} \cup {CLen(k) : k \in 0..3}
    [] OTHER -> {}

\* a call whose kind does not apply to the type is API misuse (documented to panic)
Applies(call, t) ==
  CASE call.c \in {"NotNull", "Null"} -> t.k # "dynamic"
    [] call.c \in {"LowerBound", "UpperBound", "RangeIncl"} -> t.k = "number"
    [] call.c \in {"LenLower", "LenUpper", "LenExact"} -> IsCollT(t)
    [] call.c \in {"PrefixFull", "PrefixSafe"} -> t.k = "string"

(***************************************************************************)
(* Ranges: canonical refinement records (absent field = no constraint).    *)
(***************************************************************************)
Drop(r, f) == [x \in DOMAIN r \ {f} |-> r[x]]
Put(r, f, v) == [x \in DOMAIN r \cup {f} |-> IF x = f THEN v ELSE r[x]]

\* does concrete value c (known or null, of the refined type) satisfy the call?
Sat(call, c) ==
  CASE call.c = "NotNull" -> c.st # "null"
    [] call.c = "Null" -> c.st = "null"
    [] c.st = "null" -> TRUE          \* bounds, lengths and prefixes constrain the non-null case only
    [] call.c = "LowerBound" -> IF call.inc THEN NumLE(call.n, c.v) ELSE NumLT(call.n, c.v)
    [] call.c = "UpperBound" -> IF call.inc THEN NumLE(c.v, call.n) ELSE NumLT(c.v, call.n)
    [] call.c = "LenLower" -> call.k <= LenLoOf(c)
    [] call.c = "LenUpper" -> LenHiOf(c) <= call.k
    [] call.c = "PrefixFull" -> IsPrefix(call.p, StrOf(c))
    [] call.c = "LenExact" -> call.k <= LenLoOf(c) /\ LenHiOf(c) <= call.k
    [] call.c = "RangeIncl" -> NumLE(call.lo, c.v) /\ NumLE(c.v, call.hi)
    [] call.c = "PrefixSafe" -> IsPrefix(SafePart(call.p), StrOf(c))

InModel(t, r, c) == Admits(Unk(t, r), c)

MeetLo(r, n, inc) ==
  IF n = NInf THEN r      \* x >= -inf: no constraint
  ELSE IF NoLo(r) \/ NumLT(r.lo, n) \/ (NumSame(r.lo, n) /\ r.loInc /\ ~inc)
       THEN Put(Put(r, "lo", n), "loInc", inc) ELSE r
MeetHi(r, n, inc) ==
  IF n = PInf THEN r
  ELSE IF NoHi(r) \/ NumLT(n, r.hi) \/ (NumSame(r.hi, n) /\ r.hiInc /\ ~inc)
       THEN Put(Put(r, "hi", n), "hiInc", inc) ELSE r
EmptyNum(r) == ~NoLo(r) /\ ~NoHi(r) /\ (NumLT(r.hi, r.lo) \/ (NumSame(r.lo, r.hi) /\ ~(r.loInc /\ r.hiInc)))
MeetLenLo(r, k) == IF k > MinLen(r) THEN Put(r, "minLen", k) ELSE r
MeetLenHi(r, k) == IF k < MaxLen(r) THEN Put(r, "maxLen", k) ELSE r
EmptyLen(r) == MinLen(r) > MaxLen(r)
Compatible(p, q) == IsPrefix(p, q) \/ IsPrefix(q, p)
MeetPrefix(r, p) == IF Len(p) > Len(PrefixOf(r)) THEN Put(r, "prefix", p) ELSE r

Meet(r, call) ==
  CASE call.c = "NotNull" -> [r EXCEPT !.null = "F"]
    [] call.c = "Null" -> [r EXCEPT !.null = "T"]
    [] call.c = "LowerBound" -> MeetLo(r, call.n, call.inc)
    [] call.c = "UpperBound" -> MeetHi(r, call.n, call.inc)
    [] call.c = "LenLower" -> MeetLenLo(r, call.k)
    [] call.c = "LenUpper" -> MeetLenHi(r, call.k)
    [] call.c = "PrefixFull" -> MeetPrefix(r, call.p)
    [] call.c = "LenExact" -> MeetLenHi(MeetLenLo(r, call.k), call.k)
    [] call.c = "RangeIncl" -> MeetHi(MeetLo(r, call.lo, TRUE), call.hi, TRUE)
    [] call.c = "PrefixSafe" -> MeetPrefix(r, SafePart(call.p))

\* the call contradicts what is already known about an UNKNOWN orig with range r
ContraUnk(r, call) ==
  CASE call.c = "NotNull" -> r.null = "T"
    [] call.c = "Null" -> r.null = "F"
    [] call.c \in {"LowerBound", "UpperBound", "RangeIncl"} -> EmptyNum(Meet(r, call))
    [] call.c \in {"LenLower", "LenUpper", "LenExact"} -> EmptyLen(Meet(r, call))
    [] call.c = "PrefixFull" -> ~Compatible(call.p, PrefixOf(r))
    [] call.c = "PrefixSafe" -> ~Compatible(SafePart(call.p), PrefixOf(r))

\* the call contradicts a KNOWN (or null) orig
\* (a known set holding unknown members has a length RANGE: a length constraint contradicts it only if no length in the range satisfies it)
CouldSat(call, c) ==
  CASE c.st = "null" -> Sat(call, c)
    [] call.c = "LenLower" -> call.k <= LenHiOf(c)
    [] call.c = "LenUpper" -> LenLoOf(c) <= call.k
    [] call.c = "LenExact" -> LenLoOf(c) <= call.k /\ call.k <= LenHiOf(c)
    [] OTHER -> Sat(call, c)
ContraKnown(orig, call) == ~CouldSat(call, orig)

\* the builder also keeps the length bounds stated about a KNOWN collection, so bounds that each fit a length range can still contradict each other
LenCalls == {"LenLower", "LenUpper", "LenExact"}
Contradictory(orig, r, call) ==
  IF orig.st = "unk" THEN ContraUnk(r, call)
  ELSE ContraKnown(orig, call) \/ (orig.st = "k" /\ call.c \in LenCalls /\ EmptyLen(Meet(r, call)))
NextRange(orig, r, call) == IF orig.st = "unk" \/ (orig.st = "k" /\ call.c \in LenCalls) THEN Meet(r, call) ELSE r

InitRange(orig) == IF orig.st = "unk" THEN orig.rf ELSE NoRf

(***************************************************************************)
(* The state machine                                                       *)
(***************************************************************************)
VARIABLES orig, r, said, status
rvars == <<orig, r, said, status>>

Origs == UNION {{Unk(t, NoRf)} \cup UnkVals(t) : t \in {TNum, TStr, TBool, TList(TStr), TSet(TNum), TMap(TBool), TObj([a |-> TNum])}}
         \cup {NumV(4), NumV(0), StrV(<<"a", "b">>), Null(TNum), Null(TStr), SeqV(TList(TStr), <<StrV(<<"a">>)>>), DynVal,
               \* known collections: exact lengths, and sets whose unknown members may coalesce (length 1..2, 1..3)
               SeqV(TList(TStr), <<>>), SeqV(TSet(TNum), <<NumV(0), NumV(4)>>), MapV(TMap(TBool), [a |-> BoolV(TRUE)]),
               SeqV(TSet(TNum), <<NumV(0), Unk(TNum, NoRf)>>), SeqV(TSet(TNum), <<Unk(TNum, [null |-> "F"]), Unk(TNum, NoRf), NumV(4)>>)}

RInit == orig \in Origs /\ r = InitRange(orig) /\ said = <<>> /\ status = "open"

Do(call) ==
  /\ status = "open"
  /\ Len(said) < 3
  /\ IF orig = DynVal THEN UNCHANGED <<orig, r, status>>        \* DynamicVal ignores refinement
     ELSE IF ~Applies(call, orig.ty) \/ Contradictory(orig, r, call)
          THEN status' = "rejected" /\ UNCHANGED <<orig, r>>
          ELSE /\ r' = NextRange(orig, r, call)
               /\ UNCHANGED <<orig, status>>
  /\ said' = Append(said, call)

RNext == \E call \in CallsFor(orig.ty) \cup {CNotNull, CLo(Qn(0), TRUE), CLenLo(1), CPrefix(<<"a">>)} : Do(call)
RSpec == RInit /\ [][RNext]_rvars

\* candidates of the refined type
Cands(t) ==
  {Null(t)} \cup
  CASE t.k = "number" -> {K(TNum, n) : n \in {Qn(q) : q \in {-8, -4, -2, 0, 2, 4, 6, 8, 12}} \cup {PInf, NInf}}
    [] t.k = "string" -> {StrV(s) : s \in {<<>>, <<"a">>, <<"b">>, <<"a", "b">>, <<"a", "c">>, <<"a", "b", "c">>, <<"a", "b", "c", "a">>}}
    [] t.k = "bool" -> {BoolV(TRUE), BoolV(FALSE)}
    [] t.k \in {"list", "set"} ->
         LET m == IF t.e.k = "number" THEN <<NumV(0), NumV(4), NumV(8), NumV(12)>> ELSE <<StrV(<<"a">>), StrV(<<"b">>), StrV(<<"c">>), StrV(<<>>)>> IN
         {SeqV(t, SubSeq(m, 1, k)) : k \in 0..4}
    [] t.k = "map" -> {MapV(t, <<>>), MapV(t, [a |-> BoolV(TRUE)]), MapV(t, [a |-> BoolV(TRUE), b |-> BoolV(FALSE)])}
    [] t.k = "object" -> {MapV(t, [a |-> NumV(0)])}
    [] OTHER -> {}

(***************************************************************************)
(* Design-level properties of the model (checked exhaustively by TLC)      *)
(***************************************************************************)
TypeOK == status \in {"open", "rejected"} /\ Len(said) <= 3
\* the model range admits exactly the candidates that orig admitted and that satisfy every accepted call
Faithful ==
  (orig.st = "unk" /\ orig # DynVal) =>
     \A c \in Cands(orig.ty) :
        InModel(orig.ty, r, c) <=>
          (InModel(orig.ty, InitRange(orig), c) /\
           \A i \in 1..(IF status = "open" THEN Len(said) ELSE Len(said) - 1) : Sat(said[i], c))
\* refinement only narrows (action property)
Narrowing == [][\A c \in Cands(orig.ty) : InModel(orig.ty, r', c) => InModel(orig.ty, r, c)]_rvars
\* a rejected call really had no admitted candidate left on the (dense) number line / lengths / prefixes,
\* in particular none of the lattice candidates
RejectedIsEmpty ==
  (status = "rejected" /\ orig.st = "unk" /\ Applies(said[Len(said)], orig.ty)) =>
     \A c \in Cands(orig.ty) : c.st = "k" => ~(InModel(orig.ty, r, c) /\ Sat(said[Len(said)], c))
=============================================================================
