------------------------------ MODULE UnifyGen ------------------------------
EXTENDS Unify, Json, Randomization
ShardI == EnvInt("VSHARDI", 0)
ShardN == EnvInt("VSHARDN", 1)
Core == {TBool, TNum, TStr, TDyn, TList(TNum), TList(TStr), TList(TDyn), TSet(TStr), TSet(TNum), TMap(TNum), TMap(TStr), TMap(TDyn),
         TTup(<<TNum, TStr>>), TTup(<<TNum, TNum>>), TTup(<<TStr, TStr>>), TTup(<<TBool, TStr>>), TTup(<<>>), TTup(<<TStr>>), TObj([a |-> TNum]), TObj([a |-> TStr, b |-> TNum]), TObj(<<>>),
         TObj([a |-> TDyn]), TObj([b |-> TBool]), TList(TList(TNum)), TList(TObj([a |-> TNum])), TMap(TList(TStr)), TTup(<<TList(TStr), TNum>>),
         TSet(TTup(<<TNum, TStr>>)), TTup(<<TDyn, TNum>>),
         \* structural types that differ only in which member has which type
         TObj([a |-> TNum, b |-> TStr]), TTup(<<TStr, TNum>>), TObj([a |-> TBool, b |-> TStr]), TList(TTup(<<TNum, TStr>>)), TMap(TObj([a |-> TStr])), TTup(<<TObj([a |-> TNum]), TObj([a |-> TStr])>>)}
Small == TakeN(Core, 12) \cup {TList(TDyn), TTup(<<TNum, TStr>>), TTup(<<TStr, TStr>>), TObj([a |-> TNum]), TTup(<<TStr>>), TMap(TNum)}
L1 == {<<a>> : a \in Core}
L2 == {<<a, b>> : a \in Core, b \in Core}
L3 == IF Thorough THEN {<<a, b, c>> : a \in Core, b \in Core, c \in Core} ELSE {<<a, b, c>> : a \in Small, b \in Small, c \in Core}
L4 == RandomSubset(IF Thorough THEN 20000 ELSE 2500, [1..4 -> Core])
Lists == SetToSeq(L1 \cup L2 \cup L3 \cup L4)
Mine == SetToSeq({i \in 1..Len(Lists) : i % ShardN = ShardI})
ValsFor == [t \in Core |-> SetToSeq(TakeN(Vals(t, W), 3) \cup {Null(t), Unk(t, NoRf)})]
ASSUME ndJsonSerialize(IOEnv.VOUT, <<[lists |-> [j \in 1..Len(Mine) |-> Lists[Mine[j]]], vals |-> [t \in 1..Len(SetToSeq(Core)) |-> [t |-> SetToSeq(Core)[t], vs |-> ValsFor[SetToSeq(Core)[t]]]]]>>)
ASSUME PrintT(<<"GEN", Len(Mine)>>)
VARIABLE x
Init == x = 0
Next == UNCHANGED x
=============================================================================
