----------------------------- MODULE ValueSetSM -----------------------------
(***************************************************************************)
(* cty.ValueSet (and set-typed values built from it) as a state machine    *)
(* over three set slots.  A set is modelled as a bag of KEYS: the          *)
(* equivalence class of a known (or null) element, present at most once;   *)
(* an unknown element is never equivalent to anything (not even itself),   *)
(* so every Add of it is a new member.   [C03, C20 copy isolation]         *)
(***************************************************************************)
EXTENDS Values, Json

Slots == {"s1", "s2", "s3"}
\* the element pool: abstract value, physical representation, key, unknown?
Pool == << [a |-> NumV(4), rep |-> 0, key |-> "one", unk |-> FALSE],
           [a |-> NumV(4), rep |-> 1, key |-> "one", unk |-> FALSE],
           [a |-> NumV(8), rep |-> 0, key |-> "two", unk |-> FALSE],
           [a |-> NumV(2), rep |-> 2, key |-> "half", unk |-> FALSE],
           [a |-> Null(TNum), rep |-> 0, key |-> "null", unk |-> FALSE],
           [a |-> K(TNum, [dec |-> "1/10"]), rep |-> 0, key |-> "tenth", unk |-> FALSE],
           [a |-> K(TNum, [dec |-> "1/10"]), rep |-> 1, key |-> "tenth", unk |-> FALSE],
           [a |-> Unk(TNum, NoRf), rep |-> 0, key |-> "u8", unk |-> TRUE],
           [a |-> Unk(TNum, [null |-> "F"]), rep |-> 0, key |-> "u9", unk |-> TRUE],
           [a |-> Unk(TNum, [null |-> "F", lo |-> Qn(0), loInc |-> TRUE]), rep |-> 0, key |-> "u10", unk |-> TRUE],
           [a |-> Unk(TNum, [null |-> "U", hi |-> Qn(8), hiInc |-> FALSE]), rep |-> 0, key |-> "u11", unk |-> TRUE],
           [a |-> Unk(TNum, [null |-> "F", lo |-> Qn(4), loInc |-> FALSE, hi |-> Qn(8), hiInc |-> TRUE]), rep |-> 0, key |-> "u12", unk |-> TRUE] >>
P == Len(Pool)
Keys == {Pool[i].key : i \in 1..P}
UnkKeys == {Pool[i].key : i \in {j \in 1..P : Pool[j].unk}}
KnownKeys == Keys \ UnkKeys

NoMembers == [k \in Keys |-> 0]
BagSize(b) == LET RECURSIVE Sum(_) Sum(S) == IF S = {} THEN 0 ELSE LET k == CHOOSE x \in S : TRUE IN b[k] + Sum(S \ {k}) IN Sum(Keys)
BAdd(b, i) == LET k == Pool[i].key IN IF Pool[i].unk THEN [b EXCEPT ![k] = @ + 1] ELSE [b EXCEPT ![k] = 1]
BRemove(b, i) == LET k == Pool[i].key IN IF Pool[i].unk THEN b ELSE [b EXCEPT ![k] = 0]
BHas(b, i) == ~Pool[i].unk /\ b[Pool[i].key] > 0
BUnion(x, y) == [k \in Keys |-> IF k \in UnkKeys THEN x[k] + y[k] ELSE IF x[k] + y[k] > 0 THEN 1 ELSE 0]
BInter(x, y) == [k \in Keys |-> IF k \in UnkKeys THEN 0 ELSE IF x[k] > 0 /\ y[k] > 0 THEN 1 ELSE 0]
BSub(x, y)   == [k \in Keys |-> IF k \in UnkKeys THEN x[k] ELSE IF x[k] > 0 /\ y[k] = 0 THEN 1 ELSE 0]
BSym(x, y)   == [k \in Keys |-> IF k \in UnkKeys THEN x[k] + y[k] ELSE IF (x[k] > 0) # (y[k] > 0) THEN 1 ELSE 0]

VARIABLES sets, hist
svars == <<sets, hist>>
MaxBag == 3
Depth == EnvInt("VDEPTH", 8)

SInit == sets = [s \in Slots |-> NoMembers] /\ hist = <<>>

Binary == {"Union", "Intersection", "Subtract", "SymmetricDifference"}
Apply(st, o) ==    \* the model's transition function, shared with the trace spec
  CASE o.op = "Add" -> [st EXCEPT ![o.s] = BAdd(@, o.e)]
    [] o.op = "Remove" -> [st EXCEPT ![o.s] = BRemove(@, o.e)]
    [] o.op \in {"Has", "Values"} -> st
    [] o.op \in {"Copy", "RoundTrip"} -> [st EXCEPT ![o.t] = st[o.s]]
    [] o.op = "Union" -> [st EXCEPT ![o.u] = BUnion(st[o.s], st[o.t])]
    [] o.op = "Intersection" -> [st EXCEPT ![o.u] = BInter(st[o.s], st[o.t])]
    [] o.op = "Subtract" -> [st EXCEPT ![o.u] = BSub(st[o.s], st[o.t])]
    [] o.op = "SymmetricDifference" -> [st EXCEPT ![o.u] = BSym(st[o.s], st[o.t])]

Ops ==
  {[op |-> "Add", s |-> s, e |-> e] : s \in Slots, e \in 1..P}
  \cup {[op |-> "Remove", s |-> s, e |-> e] : s \in Slots, e \in 1..P}
  \cup {[op |-> "Has", s |-> s, e |-> e] : s \in Slots, e \in 1..P}
  \cup {[op |-> "Copy", s |-> s, t |-> t] : s \in Slots, t \in Slots}
  \cup {[op |-> "RoundTrip", s |-> s, t |-> t] : s \in Slots, t \in Slots}
  \cup {[op |-> b, s |-> s, t |-> t, u |-> u] : b \in Binary, s \in Slots, t \in Slots, u \in {"s3", "s1"}}

Enabled(o) == /\ (o.op = "Add" /\ Pool[o.e].unk => BagSize(sets[o.s]) < 6)
              /\ (o.op \in {"Copy", "RoundTrip"} => o.s # o.t)
Do(o) == /\ Len(hist) < Depth /\ Enabled(o)
         /\ sets' = Apply(sets, o)
         /\ hist' = Append(hist, o)
SNext == \E o \in Ops : Do(o)
SSpec == SInit /\ [][SNext]_svars

\* design-level sanity of the model
KnownAtMostOnce == \A s \in Slots : \A k \in KnownKeys : sets[s][k] <= 1
AlgebraLaws == \A s, t \in Slots :
   /\ BUnion(sets[s], sets[t]) = BUnion(sets[t], sets[s])
   /\ BInter(sets[s], sets[t]) = BInter(sets[t], sets[s])
   /\ BSym(sets[s], sets[t]) = BUnion(BSub(sets[s], sets[t]), BSub(sets[t], sets[s]))
   /\ \A k \in KnownKeys : BSub(sets[s], sets[t])[k] + BInter(sets[s], sets[t])[k] = sets[s][k]
\* behaviours are emitted from simulation runs when they reach the depth bound
Emit == (Len(hist) = Depth) => PrintT(ToJson([beh |-> hist, pool |-> Pool]))
View == sets
=============================================================================
