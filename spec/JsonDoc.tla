------------------------------- MODULE JsonDoc ------------------------------
(***************************************************************************)
(* Abstract JSON documents and the JSON codec of cty/json.          [C15]  *)
(*   [j |-> "null"] | [j |-> "bool", b] | [j |-> "num", n] | [j |-> "str", s]*)
(*   [j |-> "arr", a |-> <<doc>>] | [j |-> "obj", o |-> <<[k, v]>>]        *)
(* Objects are SEQUENCES of key/value pairs: order and duplicates exist.   *)
(***************************************************************************)
EXTENDS Values
JNull == [j |-> "null"]
JBool(b) == [j |-> "bool", b |-> b]
JNum(n) == [j |-> "num", n |-> n]
JStr(s) == [j |-> "str", s |-> s]
JArr(a) == [j |-> "arr", a |-> a]
JObj(o) == [j |-> "obj", o |-> o]
Pair(k, v) == [k |-> k, v |-> v]
Chars(str) == <<str>>        \* attribute / key names are single characters; type keywords are whole tokens

KW(k) == CASE k = "bool" -> <<"b", "o", "o", "l">> [] k = "number" -> <<"n", "u", "m", "b", "e", "r">> [] k = "string" -> <<"s", "t", "r", "i", "n", "g">> [] k = "dynamic" -> <<"d", "y", "n", "a", "m", "i", "c">> [] k = "list" -> <<"l", "i", "s", "t">> [] k = "set" -> <<"s", "e", "t">> [] k = "map" -> <<"m", "a", "p">> [] k = "tuple" -> <<"t", "u", "p", "l", "e">> [] k = "object" -> <<"o", "b", "j", "e", "c", "t">> [] k = "value" -> <<"v", "a", "l", "u", "e">> [] k = "type" -> <<"t", "y", "p", "e">>

KeyRankJ(x) == IF x = "a" THEN 1 ELSE IF x = "b" THEN 2 ELSE IF x = "c" THEN 3 ELSE 4
SortedNames(D) == SortSeq(SetToSeq(D), LAMBDA x, y : KeyRankJ(x) < KeyRankJ(y))

\* the JSON form of a type (cty.Type.MarshalJSON); keyword strings are single tokens
RECURSIVE TypeDoc(_)
TypeDoc(t) ==
  CASE t.k \in {"bool", "number", "string", "dynamic"} -> JStr(KW(t.k))
    [] t.k \in CollKinds -> JArr(<<JStr(KW(t.k)), TypeDoc(t.e)>>)
    [] t.k = "tuple" -> JArr(<<JStr(KW("tuple")), JArr([i \in 1..Len(t.es) |-> TypeDoc(t.es[i])])>>)
    [] t.k = "object" -> LET ns == SortedNames(DOMAIN t.as) IN
                         JArr(<<JStr(KW("object")), JObj([i \in 1..Len(ns) |-> Pair(<<ns[i]>>, TypeDoc(t.as[ns[i]]))])>>)

\* the encoder: type-directed by the constraint ty; dynamic positions carry value + type
RECURSIVE MarshalModel(_, _)
MarshalModel(v, ty) ==
  IF ty.k = "dynamic" /\ v.ty.k # "dynamic"
  THEN JObj(<<Pair(KW("value"), MarshalModel(v, v.ty)), Pair(KW("type"), TypeDoc(v.ty))>>)
  ELSE IF v.st = "null" THEN JNull
  ELSE CASE ty.k = "bool" -> JBool(BoolOf(v))
         [] ty.k = "number" -> JNum(v.v)
         [] ty.k = "string" -> JStr(StrOf(v))
         [] ty.k \in {"list", "set"} -> JArr([i \in 1..Len(Elems(v)) |-> MarshalModel(Elems(v)[i], ty.e)])
         [] ty.k = "tuple" -> JArr([i \in 1..Len(Elems(v)) |-> MarshalModel(Elems(v)[i], ty.es[i])])
         [] ty.k = "map" -> LET ns == SortedNames(DOMAIN Attrs(v)) IN JObj([i \in 1..Len(ns) |-> Pair(<<ns[i]>>, MarshalModel(Attrs(v)[ns[i]], ty.e))])
         [] ty.k = "object" -> LET ns == SortedNames(DOMAIN Attrs(v)) IN JObj([i \in 1..Len(ns) |-> Pair(<<ns[i]>>, MarshalModel(Attrs(v)[ns[i]], ty.as[ns[i]]))])

\* documents are compared up to number identity (numerically) and, for sets, member order
RECURSIVE DocEq(_, _)
DocEq(x, y) ==
  /\ x.j = y.j
  /\ CASE x.j = "num" -> IF HasRank(x.n) /\ HasRank(y.n) THEN NumSame(x.n, y.n) ELSE x.n = y.n
       [] x.j = "arr" -> Len(x.a) = Len(y.a) /\ \A i \in 1..Len(x.a) : DocEq(x.a[i], y.a[i])
       [] x.j = "obj" -> Len(x.o) = Len(y.o) /\ \A i \in 1..Len(x.o) : x.o[i].k = y.o[i].k /\ DocEq(x.o[i].v, y.o[i].v)
       [] OTHER -> x = y
RECURSIVE DocEqUnordered(_, _)
DocEqUnordered(x, y) ==      \* arrays as multisets where the constraint says "set": used for set members only
  /\ x.j = y.j
  /\ CASE x.j = "arr" -> Len(x.a) = Len(y.a) /\ \A i \in 1..Len(x.a) : \E k \in 1..Len(y.a) : DocEqUnordered(x.a[i], y.a[k])
       [] x.j = "obj" -> Len(x.o) = Len(y.o) /\ \A i \in 1..Len(x.o) : x.o[i].k = y.o[i].k /\ DocEqUnordered(x.o[i].v, y.o[i].v)
       [] x.j = "num" -> IF HasRank(x.n) /\ HasRank(y.n) THEN NumSame(x.n, y.n) ELSE x.n = y.n
       [] OTHER -> x = y
RECURSIVE HasSetT(_)
HasSetT(t) == CASE t.k = "set" -> TRUE [] t.k \in {"list", "map"} -> HasSetT(t.e)
                [] t.k = "tuple" -> \E i \in 1..Len(t.es) : HasSetT(t.es[i])
                [] t.k = "object" -> \E n \in DOMAIN t.as : HasSetT(t.as[n]) [] OTHER -> FALSE

\* the structural type a document implies
NoDupKeys(o) == \A i, k \in 1..Len(o) : i # k => o[i].k # o[k].k
RECURSIVE ImpliedTypeModel(_)
ImpliedTypeModel(d) ==
  CASE d.j = "null" -> TDyn [] d.j = "bool" -> TBool [] d.j = "num" -> TNum [] d.j = "str" -> TStr
    [] d.j = "arr" -> TTup([i \in 1..Len(d.a) |-> ImpliedTypeModel(d.a[i])])
    [] d.j = "obj" -> TObj([n \in {d.o[i].k[1] : i \in 1..Len(d.o)} |->
                              ImpliedTypeModel(d.o[CHOOSE i \in 1..Len(d.o) : d.o[i].k[1] = n /\ \A m \in (i + 1)..Len(d.o) : d.o[m].k[1] # n].v)])
RECURSIVE DocNoDupKeys(_)
DocNoDupKeys(d) == CASE d.j = "arr" -> \A i \in 1..Len(d.a) : DocNoDupKeys(d.a[i])
                     [] d.j = "obj" -> NoDupKeys(d.o) /\ \A i \in 1..Len(d.o) : DocNoDupKeys(d.o[i].v)
                     [] OTHER -> TRUE
\* NFC normalization on the abstract alphabet: e + combining acute composes
RECURSIVE NormStr(_)
NormStr(s) == IF Len(s) < 2 THEN s
              ELSE IF s[1] = "e" /\ s[2] = "acute" THEN <<"eacute">> \o NormStr(SubSeq(s, 3, Len(s)))
              ELSE <<s[1]>> \o NormStr(Tail(s))
\* documents equal up to key order (no duplicate keys), number spelling, string normalization
RECURSIVE DocEqKeyOrder(_, _)
DocEqKeyOrder(x, y) ==
  /\ x.j = y.j
  /\ CASE x.j = "num" -> IF HasRank(x.n) /\ HasRank(y.n) THEN NumSame(x.n, y.n) ELSE x.n = y.n
       [] x.j = "arr" -> Len(x.a) = Len(y.a) /\ \A i \in 1..Len(x.a) : DocEqKeyOrder(x.a[i], y.a[i])
       [] x.j = "obj" -> Len(x.o) = Len(y.o) /\ \A i \in 1..Len(x.o) : \E k \in 1..Len(y.o) : NormStr(x.o[i].k) = NormStr(y.o[k].k) /\ DocEqKeyOrder(x.o[i].v, y.o[k].v)
       [] x.j = "str" -> NormStr(x.s) = NormStr(y.s)
       [] OTHER -> x = y

(***************************************************************************)
(* Rules                                                                   *)
(*  jm : [ev, v, ty (constraint), m = [ok, valid, doc], back = R]           *)
(*  jd : [ev, doc (generated), it = [ok, t], um = R, rm = [ok, doc]]        *)
(*  jx : [ev, v, ty, m]   values JSON cannot represent                      *)
(***************************************************************************)
\* positions at which the encoding cannot carry the type: a null, or an empty collection, under a constraint
\* whose type at that position is not itself the placeholder but contains one
RECURSIVE Lossy(_, _)
Lossy(v, ty) ==
  IF ty.k = "dynamic" THEN FALSE
  ELSE IF v.st = "null" THEN HasDyn(ty)
  ELSE CASE ty.k \in {"list", "set"} -> (Len(Elems(v)) = 0 /\ HasDyn(ty.e)) \/ \E i \in 1..Len(Elems(v)) : Lossy(Elems(v)[i], ty.e)
         [] ty.k = "map" -> (DOMAIN Attrs(v) = {} /\ HasDyn(ty.e)) \/ \E n \in DOMAIN Attrs(v) : Lossy(Attrs(v)[n], ty.e)
         [] ty.k = "tuple" -> \E i \in 1..Len(Elems(v)) : Lossy(Elems(v)[i], ty.es[i])
         [] ty.k = "object" -> \E n \in DOMAIN Attrs(v) : Lossy(Attrs(v)[n], ty.as[n])
         [] OTHER -> FALSE
JmFailed(e) ==
  \* bytes handed out by an earlier Marshal call are the caller's: a later call does not rewrite them
  (IF Has(e, "pb") /\ e.pb # e.pb2 THEN {"C15.DocMirrorsValue", "C20.Immutable"} ELSE {}) \cup
  IF ~e.m.ok THEN (IF e.m.fail = "panic" THEN {"C15.NoPanic"} ELSE {"C15.MarshalAcceptsConformingValue"})
  ELSE (IF e.m.valid THEN {} ELSE {"C15.ValidJSON"})
       \cup (IF (IF HasSetT(e.v.ty) THEN DocEqUnordered(e.m.doc, MarshalModel(e.v, e.ty)) ELSE DocEq(e.m.doc, MarshalModel(e.v, e.ty))) THEN {} ELSE {"C15.DocMirrorsValue"})
       \cup (IF ~e.back.ok /\ e.back.fail = "panic" THEN {"C15.NoPanic"} ELSE {})
       \cup (IF e.back.ok /\ TEquals(e.back.val.ty, e.v.ty) /\ AbsEq(e.back.val, e.v) THEN {}
             ELSE IF Lossy(e.v, e.ty) THEN {"C15.RoundTrip.NullOrEmptyUnderNestedPlaceholder"} ELSE {"C15.RoundTrip"})
       \cup (IF e.back.ok /\ ~WellFormed(e.back.val) THEN {"C06.WellFormed"} ELSE {})
JdFailed(e) ==
  IF ~DocNoDupKeys(e.doc) THEN (IF (e.it.ok \/ e.it.fail # "panic") /\ (e.um.ok \/ e.um.fail # "panic") THEN {} ELSE {"C15.NoPanic"})
  ELSE (IF e.it.ok /\ TEquals(e.it.t, ImpliedTypeModel(e.doc)) THEN {} ELSE {"C15.ImpliedTypeIsStructural"})
       \cup (IF e.um.ok THEN {} ELSE {"C15.UnmarshalWithImpliedType"})
       \cup (IF e.um.ok /\ ~WellFormed(e.um.val) THEN {"C06.WellFormed"} ELSE {})
       \cup (IF e.rm.ok /\ DocEqKeyOrder(e.rm.doc, e.doc) THEN {} ELSE {"C15.RemarshalSameDocument"})
       \* the encoding/json integration (SimpleJSONValue) decodes with the implied type and re-encodes the same document
       \cup (IF ~Has(e, "sj") THEN {}
             ELSE IF ~e.sj.ok /\ e.sj.fail = "panic" THEN {"C15.NoPanic"}
             ELSE IF e.sj.ok /\ e.um.ok /\ DocEqKeyOrder(e.sj.doc, e.doc) /\ e.sj.val = e.um.val THEN {} ELSE {"C15.RemarshalSameDocument"})
JxFailed(e) == IF e.m.ok THEN {"C15.RejectsUnrepresentable"} ELSE IF e.m.fail = "panic" THEN {"C15.NoPanic"} ELSE {}
=============================================================================
