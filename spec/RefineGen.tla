----------------------------- MODULE RefineGen ------------------------------
(* Behaviours of the Refine state machine, as call sequences per orig: every  *)
(* maximal behaviour (length Depth, or ending in the first rejected call).    *)
EXTENDS Refine, Json
Depth == EnvInt("VDEPTH", 3)
Thin == Env("VTHIN", "1") = "1"
ThinNums == {Qn(0), Qn(4)}
Menu(t) ==
  IF ~Thin THEN CallsFor(t) \cup {CNotNull, CLo(Qn(0), TRUE), CLenLo(1), CPrefix(<<"a">>)}
  ELSE {CNotNull, CNull} \cup
       CASE t.k = "number" -> {CLo(n, i) : n \in ThinNums, i \in BOOLEAN} \cup {CHi(n, i) : n \in ThinNums, i \in BOOLEAN}
                              \cup {CLo(NInf, TRUE), CHi(PInf, TRUE), CLo(PInf, TRUE), CHi(Qn(8), FALSE), CLenLo(1)}
                              \cup {CRange(Qn(0), Qn(4)), CRange(Qn(4), Qn(4)), CRange(Qn(4), Qn(0)), CRange(NInf, Qn(0))}
         [] t.k = "string" -> {CPrefix(p) : p \in PrefixMenu} \cup {CPrefixSafe(p) : p \in PrefixMenu} \cup {CLo(Qn(0), TRUE)}
         [] IsCollT(t) -> {CLenLo(k) : k \in 0..3} \cup {CLenHi(k) : k \in 0..3} \cup {CLen(k) : k \in 0..3} \cup {CPrefix(<<"a">>)}
         [] OTHER -> {CLenLo(1)}
RECURSIVE Beh(_, _, _)
Beh(o, rr, n) ==
  IF n = 0 THEN {<<>>}
  ELSE UNION {IF o # DynVal /\ (~Applies(call, o.ty) \/ Contradictory(o, rr, call)) THEN {<<call>>}
              ELSE {<<call>> \o b : b \in Beh(o, IF o # DynVal THEN NextRange(o, rr, call) ELSE rr, n - 1)}
              : call \in Menu(o.ty)}
OSeq == SetToSeq(Origs)
ShardI == EnvInt("VSHARDI", 0)
ShardN == EnvInt("VSHARDN", 1)
Mine == SetToSeq({i \in 1..Len(OSeq) : i % ShardN = ShardI})
Line(o) == [orig |-> o, cands |-> SetToSeq(Cands(o.ty)), seqs |-> SetToSeq(Beh(o, InitRange(o), Depth))]
ASSUME ndJsonSerialize(IOEnv.VOUT, [j \in 1..Len(Mine) |-> Line(OSeq[Mine[j]])])
ASSUME PrintT(<<"GEN", Len(Mine)>>)
VARIABLE x
Init == x = 0 /\ orig = DynVal /\ r = NoRf /\ said = <<>> /\ status = "gen"
Next == UNCHANGED <<x, orig, r, said, status>>
=============================================================================
