---------------------------- MODULE ConvertTrace ----------------------------
EXTENDS Convert, Json
Trace == ndJsonDeserialize(IOEnv.VTRACE)
VARIABLES l, cnt
Init == l = 1 /\ cnt = [events |-> 0, nontrivial |-> 0, ok |-> 0, safeoffered |-> 0]
Next == /\ l <= Len(Trace)
        /\ LET e == Trace[l] IN
           /\ \A x \in ConvFailed(e) : PrintT(<<"VIOL", l, x>>)
           /\ cnt' = [cnt EXCEPT !.events = @ + 1, !.nontrivial = @ + (IF ConvNontrivial(e) THEN 1 ELSE 0),
                                 !.ok = @ + (IF e.r.ok THEN 1 ELSE 0), !.safeoffered = @ + (IF e.safe # "nil" THEN 1 ELSE 0)]
        /\ l' = l + 1
        /\ (l = Len(Trace) => PrintT(<<"DONE", l, cnt'>>))
=============================================================================
