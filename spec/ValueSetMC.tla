---- MODULE ValueSetMC ----
EXTENDS ValueSetSM
====
