---------------------------- MODULE EqLawsTrace -----------------------------
EXTENDS EqLaws, Json
Trace == ndJsonDeserialize(IOEnv.VTRACE)
VARIABLES l, cnt
Init == l = 1 /\ cnt = [events |-> 0, nontrivial |-> 0, pairs |-> 0]
Failed(e) == IF e.ev = "eqgroup" THEN EqGroupFailed(e) ELSE SetPermFailed(e)
Next == /\ l <= Len(Trace)
        /\ LET e == Trace[l] IN
           /\ \A x \in Failed(e) : PrintT(<<"VIOL", l, x>>)
           /\ cnt' = [cnt EXCEPT !.events = @ + 1,
                                 !.pairs = @ + (IF e.ev = "eqgroup" THEN N(e) * N(e) ELSE 0),
                                 !.nontrivial = @ + (IF e.ev = "eqgroup"
                                      THEN Cardinality({p \in (1..N(e)) \X (1..N(e)) : p[1] # p[2] /\ e.raw[p[1]][p[2]]})
                                      ELSE (IF Distinct(e.input) < Len(e.input) THEN 1 ELSE 0))]
        /\ l' = l + 1
        /\ (l = Len(Trace) => PrintT(<<"DONE", l, cnt'>>))
=============================================================================
