------------------------------ MODULE Universe ------------------------------
(***************************************************************************)
(* Abstract universe of cty types and values.                             *)
(*                                                                         *)
(* Types  : records with a kind field k.                                   *)
(*   [k |-> "bool" | "number" | "string" | "dynamic"]                     *)
(*   [k |-> "list" | "set" | "map", e |-> T]                              *)
(*   [k |-> "tuple",  es |-> <<T, ...>>]                                   *)
(*   [k |-> "object", as |-> [name |-> T], opt |-> <<name, ...>>]          *)
(*   [k |-> "capsule", n |-> "c1"]                                         *)
(* Values : [ty, st, mk] plus v when st = "k" and rf when st = "unk".     *)
(*   st = "k"    known, non-null; payload v                                *)
(*   st = "null" null of type ty                                           *)
(*   st = "unk"  unknown with refinement rf                                *)
(*   mk          sequence of mark names on THIS value (one layer)          *)
(* Payloads are single-kind records so that any two values can be compared *)
(* by TLC whatever their types: bool [b |-> TRUE]; number N (a record, see *)
(* below); string [s |-> <<"a","b">>] (one element per code point of the   *)
(* stored, normalized form); list/tuple/set [l |-> <<values>>] (sets: in   *)
(* iteration order); map/object [m |-> [key |-> value]]; capsule [c |-> t].*)
(* Numbers N: [q |-> i] is i/4; [inf |-> 1 | -1]; [lm |-> name] a named    *)
(*   landmark; [dec |-> text] an opaque decimal (identity only).          *)
(* Refinements rf: [null |-> "U"|"F"|"T"] plus optional lo, loInc, hi,     *)
(*   hiInc (numbers) / minLen, maxLen (collections) / prefix (strings).    *)
(* The same shapes are produced by the Go projection (harness/project.go)  *)
(* and consumed by its inverse (harness/concretize.go).                    *)
(***************************************************************************)
EXTENDS Integers, Sequences, FiniteSets, SequencesExt, FiniteSetsExt, TLC

TBool == [k |-> "bool"]
TNum  == [k |-> "number"]
TStr  == [k |-> "string"]
TDyn  == [k |-> "dynamic"]
TList(e) == [k |-> "list", e |-> e]
TSet(e)  == [k |-> "set", e |-> e]
TMap(e)  == [k |-> "map", e |-> e]
TTup(es) == [k |-> "tuple", es |-> es]
TObj(as) == [k |-> "object", as |-> as, opt |-> <<>>]
TObjOpt(as, opt) == [k |-> "object", as |-> as, opt |-> opt]
TCap(n)  == [k |-> "capsule", n |-> n]

PrimKinds == {"bool", "number", "string"}
CollKinds == {"list", "set", "map"}
IsPrimT(t) == t.k \in PrimKinds
IsCollT(t) == t.k \in CollKinds
IsSeqT(t)  == t.k \in {"list", "set", "tuple"}
IsDynT(t)  == t.k = "dynamic"

Has(r, f) == f \in DOMAIN r

NoRf == [null |-> "U"]
NoMk == <<>>
K(ty, v)      == [ty |-> ty, st |-> "k", v |-> v, mk |-> NoMk]
Null(ty)      == [ty |-> ty, st |-> "null", mk |-> NoMk]
Unk(ty, rf)   == [ty |-> ty, st |-> "unk", rf |-> rf, mk |-> NoMk]
DynVal        == Unk(TDyn, NoRf)
WithMk(v, m)  == [v EXCEPT !.mk = m]

Qn(i)  == [q |-> i]
PInf   == [inf |-> 1]
NInf   == [inf |-> -1]
NumV(i) == K(TNum, Qn(i))
StrV(s) == K(TStr, [s |-> s])
BoolV(b) == K(TBool, [b |-> b])
SeqV(t, s) == K(t, [l |-> s])        \* list / set / tuple
MapV(t, m) == K(t, [m |-> m])        \* map / object
BoolOf(v) == v.v.b
StrOf(v)  == v.v.s
Elems(v)  == v.v.l
Attrs(v)  == v.v.m
SetElem(v, i, w) == [v EXCEPT !.v = [l |-> [Elems(v) EXCEPT ![i] = w]]]
SetAttr(v, n, w) == [v EXCEPT !.v = [m |-> [Attrs(v) EXCEPT ![n] = w]]]

IsKnown(v) == v.st = "k"
IsNullV(v) == v.st = "null"
IsUnk(v)   == v.st = "unk"

(***************************************************************************)
(* Number order.  Forms: [q |-> i] is i/4; [n |-> a, d |-> b] is a/b with  *)
(* b a power of two (every finite big.Float is dyadic); [inf |-> 1 | -1];  *)
(* [lm |-> name] a named landmark; [dec |-> text] an opaque number with    *)
(* identity only (no order).  "Small" numbers are compared exactly by      *)
(* cross-multiplication (the projection keeps |q| <= 2^16, |a|,b <= 2^12   *)
(* so that products stay inside TLC's 32-bit integers); landmarks beyond   *)
(* the small range and the infinities are compared by coarse rank.         *)
(***************************************************************************)
LMBASE == 536870912         \* 2^29: whole landmarks beyond the small range
INFRANK == 2000000000

\* name -> [r: coarse rank, whole, f64: exact in float64] (+ n, d for small landmarks)
Landmarks ==
  [ tenth      |-> [r |-> 0,  whole |-> FALSE, f64 |-> FALSE, n |-> 1, d |-> 10],   \* 0.1 parsed at 512 bits
    third      |-> [r |-> 0,  whole |-> FALSE, f64 |-> FALSE, n |-> 1, d |-> 3],    \* 1/3 at 512 bits
    mtenth     |-> [r |-> 0, whole |-> FALSE, f64 |-> FALSE, n |-> -1, d |-> 10],
    almost1    |-> [r |-> 0, whole |-> FALSE, f64 |-> FALSE, n |-> 999, d |-> 1000],     \* 1 - 10^-20 (order proxy: nothing else lies between)
    almost3    |-> [r |-> 0, whole |-> FALSE, f64 |-> FALSE, n |-> 2999, d |-> 1000],    \* 3 - 10^-20
    malmost1   |-> [r |-> 0, whole |-> FALSE, f64 |-> FALSE, n |-> -999, d |-> 1000],
    malmost3   |-> [r |-> 0, whole |-> FALSE, f64 |-> FALSE, n |-> -2999, d |-> 1000],
    i16max     |-> [r |-> LMBASE - 100, whole |-> TRUE, f64 |-> TRUE],  \* 32767
    i16maxp    |-> [r |-> LMBASE - 99, whole |-> TRUE, f64 |-> TRUE],   \* 32768
    u16max     |-> [r |-> LMBASE - 90, whole |-> TRUE, f64 |-> TRUE],   \* 65535
    u16maxp    |-> [r |-> LMBASE - 89, whole |-> TRUE, f64 |-> TRUE],   \* 65536
    i16min     |-> [r |-> -(LMBASE - 99), whole |-> TRUE, f64 |-> TRUE],  \* -32768
    i16minm    |-> [r |-> -(LMBASE - 98), whole |-> TRUE, f64 |-> TRUE],  \* -32769
    i32max     |-> [r |-> LMBASE + 10, whole |-> TRUE, f64 |-> TRUE],   \* 2^31-1
    i32maxp    |-> [r |-> LMBASE + 11, whole |-> TRUE, f64 |-> TRUE],   \* 2^31
    u32max     |-> [r |-> LMBASE + 20, whole |-> TRUE, f64 |-> TRUE],   \* 2^32-1
    u32maxh    |-> [r |-> LMBASE + 21, whole |-> FALSE, f64 |-> TRUE],  \* 2^32-1/2
    u32maxp    |-> [r |-> LMBASE + 22, whole |-> TRUE, f64 |-> TRUE],   \* 2^32
    f64int     |-> [r |-> LMBASE + 30, whole |-> TRUE, f64 |-> TRUE],   \* 2^53
    f64intp    |-> [r |-> LMBASE + 31, whole |-> TRUE, f64 |-> FALSE],  \* 2^53+1
    i64max     |-> [r |-> LMBASE + 40, whole |-> TRUE, f64 |-> FALSE],  \* 2^63-1
    i64maxp    |-> [r |-> LMBASE + 41, whole |-> TRUE, f64 |-> TRUE],   \* 2^63
    u64max     |-> [r |-> LMBASE + 50, whole |-> TRUE, f64 |-> FALSE],  \* 2^64-1
    u64maxp    |-> [r |-> LMBASE + 51, whole |-> TRUE, f64 |-> TRUE],   \* 2^64
    u64maxpp   |-> [r |-> LMBASE + 52, whole |-> TRUE, f64 |-> FALSE],  \* 2^64+1 (needs 65 bits)
    e30        |-> [r |-> LMBASE + 60, whole |-> TRUE, f64 |-> FALSE],  \* 10^30
    f32max     |-> [r |-> LMBASE + 70, whole |-> TRUE, f64 |-> TRUE],   \* MaxFloat32
    f32maxp    |-> [r |-> LMBASE + 71, whole |-> TRUE, f64 |-> TRUE],   \* 2^128
    e300       |-> [r |-> LMBASE + 80, whole |-> TRUE, f64 |-> FALSE],  \* 10^300
    f64max     |-> [r |-> LMBASE + 90, whole |-> TRUE, f64 |-> TRUE],   \* MaxFloat64
    f64maxp    |-> [r |-> LMBASE + 91, whole |-> TRUE, f64 |-> FALSE],  \* 2^1024
    i32min     |-> [r |-> -(LMBASE + 11), whole |-> TRUE, f64 |-> TRUE],  \* -2^31
    i32minm    |-> [r |-> -(LMBASE + 12), whole |-> TRUE, f64 |-> TRUE],  \* -2^31-1
    i64min     |-> [r |-> -(LMBASE + 41), whole |-> TRUE, f64 |-> TRUE],  \* -2^63
    i64minm    |-> [r |-> -(LMBASE + 42), whole |-> TRUE, f64 |-> FALSE], \* -2^63-1
    mf32max    |-> [r |-> -(LMBASE + 70), whole |-> TRUE, f64 |-> TRUE],
    mf32maxp   |-> [r |-> -(LMBASE + 71), whole |-> TRUE, f64 |-> TRUE],
    mf64max    |-> [r |-> -(LMBASE + 90), whole |-> TRUE, f64 |-> TRUE],
    mf64maxp   |-> [r |-> -(LMBASE + 91), whole |-> TRUE, f64 |-> FALSE] ]

HasRank(n) == Has(n, "q") \/ Has(n, "d") \/ Has(n, "inf") \/ (Has(n, "lm") /\ n.lm \in DOMAIN Landmarks)
IsSmallN(n) == Has(n, "q") \/ Has(n, "d") \/ (Has(n, "lm") /\ Landmarks[n.lm].r = 0)
Nm(n) == IF Has(n, "q") THEN n.q ELSE IF Has(n, "d") THEN n.n ELSE Landmarks[n.lm].n
Dn(n) == IF Has(n, "q") THEN 4 ELSE IF Has(n, "d") THEN n.d ELSE Landmarks[n.lm].d
Coarse(n) == IF IsSmallN(n) THEN 0 ELSE IF Has(n, "inf") THEN n.inf * INFRANK ELSE Landmarks[n.lm].r
NumLT(a, b) == IF IsSmallN(a) /\ IsSmallN(b) THEN Nm(a) * Dn(b) < Nm(b) * Dn(a) ELSE Coarse(a) < Coarse(b)
NumLE(a, b) == IF IsSmallN(a) /\ IsSmallN(b) THEN Nm(a) * Dn(b) <= Nm(b) * Dn(a) ELSE Coarse(a) <= Coarse(b)
NumSame(a, b) == NumLE(a, b) /\ NumLE(b, a)     \* numerically equal (ranked numbers)
NumEQ(a, b) == a = b               \* canonical projection: one spelling per number
IsInfN(n)   == Has(n, "inf")
IsWholeN(n) == IF Has(n, "q") THEN n.q % 4 = 0
               ELSE IF Has(n, "d") THEN n.d = 1
               ELSE IF Has(n, "lm") THEN Landmarks[n.lm].whole ELSE Has(n, "w")
IsF64N(n)   == IF Has(n, "q") \/ Has(n, "d") THEN TRUE
               ELSE IF Has(n, "lm") THEN Landmarks[n.lm].f64 ELSE (Has(n, "inf") \/ Has(n, "f"))
SignN(n)    == IF IsSmallN(n) THEN (IF Nm(n) > 0 THEN 1 ELSE IF Nm(n) < 0 THEN -1 ELSE 0)
               ELSE IF Coarse(n) > 0 THEN 1 ELSE -1

(***************************************************************************)
(* Generators (bounded).  Types(d): all types of nesting depth <= d over   *)
(* the given attribute names, tuple length <= 2, no optionals/capsules.    *)
(***************************************************************************)
SeqsUpTo(S, n) == UNION {[1..m -> S] : m \in 0..n}
RecsOver(Names, S) == UNION {[D -> S] : D \in SUBSET Names}

PrimTypes == {TBool, TNum, TStr}
LeafTypes == PrimTypes \cup {TDyn}

RECURSIVE Types(_, _)
Types(d, Names) ==
  IF d = 0 THEN LeafTypes
  ELSE LET S == Types(d - 1, Names) IN
       S \cup {TList(e) : e \in S} \cup {TSet(e) : e \in S} \cup {TMap(e) : e \in S}
         \cup {TTup(es) : es \in SeqsUpTo(S, 2)}
         \cup {TObj(as) : as \in RecsOver(Names, S)}

\* Type depth and sizes, for bounding generated data.
RECURSIVE TDepth(_)
TDepth(t) ==
  CASE t.k \in CollKinds -> 1 + TDepth(t.e)
    [] t.k = "tuple"  -> 1 + (IF t.es = <<>> THEN 0 ELSE Max({TDepth(t.es[i]) : i \in 1..Len(t.es)}))
    [] t.k = "object" -> 1 + (IF DOMAIN t.as = {} THEN 0 ELSE Max({TDepth(t.as[a]) : a \in DOMAIN t.as}))
    [] OTHER -> 0

=============================================================================
