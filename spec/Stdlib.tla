------------------------------- MODULE Stdlib -------------------------------
(***************************************************************************)
(* Standard-library functions: outcome and typing contract (C11), and the  *)
(* argument universes TLC enumerates from the functions' OWN declared      *)
(* signatures (dumped by the harness from the real function values).       *)
(* Soundness on unknowns (C12) and mark non-interference (C04) reuse the   *)
(* two-run rules of Ops.tla on the same argument lists.                    *)
(***************************************************************************)
EXTENDS Ops

\* one call: e = [fn, a, r, rt, rtv]   rt: ReturnType(types), rtv: ReturnTypeForValues(values)
FnFailed(e) ==
  (IF (~e.r.ok /\ e.r.fail = "panic") \/ (~e.rt.ok /\ e.rt.fail = "panic") \/ (~e.rtv.ok /\ e.rtv.fail = "panic") THEN {"C11.NoGoPanic"} ELSE {})
  \cup (IF (~e.r.ok /\ e.r.fail = "panicerror") \/ (~e.rt.ok /\ e.rt.fail = "panicerror") \/ (~e.rtv.ok /\ e.rtv.fail = "panicerror") THEN {"C11.NoPanicError"} ELSE {})
  \cup (IF e.r.ok THEN
          (IF e.rt.ok /\ ~Conforms(e.r.val.ty, e.rt.t) THEN {"C11.ResultConformsStatic"} ELSE {})
          \cup (IF e.rtv.ok /\ ~Conforms(e.r.val.ty, e.rtv.t) THEN {"C11.ResultConformsDynamic"} ELSE {})
          \cup (IF ~e.rtv.ok THEN {"C11.ValuePredictionRejectsSuccess"} ELSE {})
          \cup (IF AllWhollyKnown(e.a) /\ ~e.rt.ok THEN {"C11.KnownSuccessNotRejectedStatically"} ELSE {})
          \cup (IF ~WellFormedR(e.r) THEN {"C06.WellFormed"} ELSE {})
          \cup (IF AllWhollyKnown(e.a) /\ NoMarksIn(e.a) /\ ~WhollyKnown(e.r.val) THEN {"C12.KnownInKnownOut"} ELSE {})
        ELSE {})
FnNontrivial(e) == e.r.ok
=============================================================================
