---------------------------- MODULE RangeOfTrace ----------------------------
(* Value.Range() is a sound and, for wholly known values, exact description   *)
(* of the value it was taken from; Includes answers agree with it.    [C05]  *)
EXTENDS Values, Json
Trace == ndJsonDeserialize(IOEnv.VTRACE)
VARIABLES l, cnt
AsUnk(e) == Unk(e.v.ty, e.rng)
ExactRf(v) ==     \* the range a wholly known, non-null value must report
  CASE v.ty.k = "number" -> [null |-> "F", lo |-> v.v, loInc |-> TRUE, hi |-> v.v, hiInc |-> TRUE]
    [] v.ty.k = "string" -> IF StrOf(v) = <<>> THEN [null |-> "F"] ELSE [null |-> "F", prefix |-> StrOf(v)]
    [] IsCollT(v.ty) -> LET n == IF v.ty.k = "map" THEN Cardinality(DOMAIN Attrs(v)) ELSE Len(Elems(v)) IN
                        IF n = 0 THEN [null |-> "F", maxLen |-> 0] ELSE [null |-> "F", minLen |-> n, maxLen |-> n]
    [] OTHER -> [null |-> "F"]
NumInfOK(e) == e.v.ty.k = "number" => ~IsInfN(e.v.v)      \* (the projection reports infinite bounds without a flag)
Failed(e) ==
  IF Has(e, "panic") THEN {"C05.RangeNoPanic"} ELSE
  (IF TEquals(e.tc, e.v.ty) THEN {} ELSE {"C05.TypeUnchanged"})
  \cup (IF Ranked(e.v) /\ ~Admits(AsUnk(e), e.v) THEN {"C05.RangeAdmitsValue"} ELSE {})
  \cup (IF e.v.st = "null" /\ ~e.cbn THEN {"C05.RangeAdmitsValue"} ELSE {})
  \cup (IF e.v.st = "k" /\ WhollyKnown(e.v) /\ Ranked(e.v) /\ NumInfOK(e) /\ e.rng # ExactRf(e.v) THEN {"C05.RangeOfKnownExact"} ELSE {})
  \cup (IF e.v.st = "unk" /\ e.rng # e.v.rf THEN {"C05.ExactRange"} ELSE {})
  \* Includes: never False for a candidate the value admits, never True for one it excludes (wholly known candidates)
  \cup (IF \E i \in 1..Len(e.cands) : e.incl[i] = "P" THEN {"C05.RangeNoPanic"} ELSE {})
  \cup (IF \E i \in 1..Len(e.cands) : e.incl[i] = "F" /\ Ranked(e.cands[i]) /\ Ranked(e.v) /\ Admits(e.v, e.cands[i]) THEN {"C05.NeverExcludesAdmitted"} ELSE {})
  \cup (IF \E i \in 1..Len(e.cands) : e.incl[i] = "T" /\ Ranked(e.cands[i]) /\ Ranked(e.v) /\ WhollyKnown(e.cands[i]) /\ ~Admits(e.v, e.cands[i]) THEN {"C05.NeverAdmitsExcluded"} ELSE {})
Init == l = 1 /\ cnt = [events |-> 0, nontrivial |-> 0]
Next == /\ l <= Len(Trace)
        /\ LET e == Trace[l] IN
           /\ \A r \in Failed(e) : PrintT(<<"VIOL", l, r>>)
           /\ cnt' = [cnt EXCEPT !.events = @ + 1, !.nontrivial = @ + (IF e.v.st # "null" THEN 1 ELSE 0)]
        /\ l' = l + 1
        /\ (l = Len(Trace) => PrintT(<<"DONE", l, cnt'>>))
=============================================================================
