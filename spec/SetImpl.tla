------------------------------- MODULE SetImpl ------------------------------
(***************************************************************************)
(* Implementation-shaped model of cty/set (which backs cty.ValueSet,       *)
(* set-typed values and cty.PathSet): the members of one hash bucket are a *)
(* Go slice (array id, len) over a heap array with a capacity; Add appends *)
(* in place when len < cap, Remove builds a fresh array, Copy and the set  *)
(* algebra build new sets.                                                 *)
(*                                                                         *)
(* The model is run under HYPOTHESES about where an implementation might   *)
(* let two sets share a bucket slice or touch a shared array in place:     *)
(*   copy    Copy stores the source's slices in the new set                *)
(*   union   Union starts the result from the receiver's slices            *)
(*   remove  Remove compacts the array in place (append(b[:i], b[i+1:]..)) *)
(* TLC explores the model to PREDICT histories in which acting on one set  *)
(* changes another one; the predicted histories are replayed on real       *)
(* ValueSets and PathSets - only the real observation can be a verdict.    *)
(* With no hypothesis switched on the model is the repaired algorithm, for *)
(* which TLC must find no such history (SetImplFixed.cfg).                 *)
(***************************************************************************)
EXTENDS Integers, Sequences, FiniteSets, TLC, Json, IOUtils
Hyp == IF "VHYP" \in DOMAIN IOEnv THEN IOEnv.VHYP ELSE (IF "VCOPYSHARES" \in DOMAIN IOEnv /\ IOEnv.VCOPYSHARES = "1" THEN "copy" ELSE "")
CopyShares == Hyp \in {"copy", "copy+remove"}
UnionShares == Hyp \in {"union", "union+remove"}
RemoveInPlace == Hyp \in {"copy+remove", "union+remove"}
NoCopy == "VNOCOPY" \in DOMAIN IOEnv /\ IOEnv.VNOCOPY = "1"       \* PathSet has no Copy method
MaxLen == IF "VLEN" \in DOMAIN IOEnv THEN atoi(IOEnv.VLEN) ELSE 6
Elems == 1..5            \* mutually non-equivalent elements of ONE hash bucket
ISlots == {"s1", "s2", "s3"}
VARIABLES heap, sl, ihist, broken
ivars == <<heap, sl, ihist, broken>>
\* heap: sequence of arrays [cells: Seq(Elems \cup {0}), cap]; sl: slot -> [arr, len] (arr = 0: no bucket)
IInit == heap = <<>> /\ sl = [s \in ISlots |-> [arr |-> 0, len |-> 0]] /\ ihist = <<>> /\ broken = FALSE
MembersOf(h, x) == IF x.arr = 0 THEN <<>> ELSE SubSeq(h[x.arr].cells, 1, x.len)
Grow(c) == IF c = 0 THEN 1 ELSE 2 * c
Pad(seq, n) == seq \o [i \in 1..(n - Len(seq)) |-> 0]
HasE(h, x, e) == \E i \in 1..x.len : x.arr # 0 /\ h[x.arr].cells[i] = e
AddTo(h, x, e) ==      \* returns <<heap', slice'>>
  IF HasE(h, x, e) THEN <<h, x>>
  ELSE IF x.arr # 0 /\ x.len < h[x.arr].cap
       THEN <<[h EXCEPT ![x.arr].cells[x.len + 1] = e], [x EXCEPT !.len = @ + 1]>>
       ELSE LET c == Grow(IF x.arr = 0 THEN 0 ELSE h[x.arr].cap)
                cells == Pad(Append(MembersOf(h, x), e), c)
            IN <<Append(h, [cells |-> cells, cap |-> c]), [arr |-> Len(h) + 1, len |-> x.len + 1]>>
RECURSIVE AddAll(_, _, _)
AddAll(h, x, es) == IF es = <<>> THEN <<h, x>> ELSE LET r == AddTo(h, x, Head(es)) IN AddAll(r[1], r[2], Tail(es))
RemoveFrom(h, x, e) ==
  IF ~HasE(h, x, e) THEN <<h, x>>
  ELSE LET rest == SelectSeq(MembersOf(h, x), LAMBDA y : y # e) IN
       IF rest = <<>> THEN <<h, [arr |-> 0, len |-> 0]>>
       ELSE IF RemoveInPlace
            THEN <<[h EXCEPT ![x.arr].cells = Pad(rest, h[x.arr].cap) ], [x EXCEPT !.len = Len(rest)]>>   \* later cells keep stale values in Go; 0 here (never read)
            ELSE <<Append(h, [cells |-> rest, cap |-> Len(rest)]), [arr |-> Len(h) + 1, len |-> Len(rest)]>>
Fresh(h, ms) == IF ms = <<>> THEN <<h, [arr |-> 0, len |-> 0]>> ELSE AddAll(h, [arr |-> 0, len |-> 0], ms)
Step(o) ==
  /\ Len(ihist) < MaxLen /\ ~broken
  /\ LET s == o.s
         r == CASE o.op = "Add" -> AddTo(heap, sl[s], o.e)
                [] o.op = "Remove" -> RemoveFrom(heap, sl[s], o.e)
                [] o.op = "Copy" -> IF CopyShares \/ sl[s].arr = 0 THEN <<heap, sl[s]>>
                                    ELSE <<Append(heap, [cells |-> MembersOf(heap, sl[s]), cap |-> sl[s].len]), [arr |-> Len(heap) + 1, len |-> sl[s].len]>>
                [] o.op = "Union" -> IF UnionShares THEN AddAll(heap, sl[s], MembersOf(heap, sl[o.t]))
                                     ELSE LET a == Fresh(heap, MembersOf(heap, sl[s])) IN AddAll(a[1], a[2], MembersOf(heap, sl[o.t]))
         tgt == IF o.op = "Copy" THEN o.t ELSE IF o.op = "Union" THEN o.u ELSE s
         sl2 == [sl EXCEPT ![tgt] = r[2]]
     IN /\ heap' = r[1] /\ sl' = sl2
        /\ broken' = \E x \in ISlots \ {tgt} : MembersOf(r[1], sl2[x]) # MembersOf(heap, sl[x])
  /\ ihist' = Append(ihist, o)
IOps == {[op |-> "Add", s |-> s, e |-> e] : s \in ISlots, e \in Elems}
        \cup {[op |-> "Remove", s |-> s, e |-> e] : s \in ISlots, e \in Elems}
        \cup (IF NoCopy THEN {} ELSE {[op |-> "Copy", s |-> "s1", t |-> "s2"], [op |-> "Copy", s |-> "s1", t |-> "s3"], [op |-> "Copy", s |-> "s2", t |-> "s3"]})
        \cup {[op |-> "Union", s |-> "s1", t |-> "s2", u |-> "s3"], [op |-> "Union", s |-> "s2", t |-> "s1", u |-> "s3"]}
\* symmetry breaking by hand: elements are first used in increasing order
UsedE == {ihist[i].e : i \in {j \in 1..Len(ihist) : "e" \in DOMAIN ihist[j]}}
Canon(o) == "e" \in DOMAIN o => (o.e \in UsedE \/ o.e = Cardinality(UsedE) + 1)
INext == \E o \in IOps : Canon(o) /\ Step(o)
ISpec == IInit /\ [][INext]_ivars
\* not an assertion about the code: a printer of predicted counterexamples
EmitBroken == broken => PrintT(ToJson([beh |-> ihist]))
NeverBroken == ~broken
IView == <<heap, sl, broken>>
=============================================================================
