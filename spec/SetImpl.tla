------------------------------- MODULE SetImpl ------------------------------
(***************************************************************************)
(* Implementation-shaped model of cty/set: hash buckets are Go slices      *)
(* (array id, len) over heap arrays with a capacity; Add appends in place  *)
(* when len < cap, Remove builds a fresh array, Copy copies the bucket     *)
(* map but shares the slices.  TLC explores it to PREDICT histories in     *)
(* which acting on one set changes another (copy isolation); the predicted *)
(* histories are replayed on real ValueSets - only the real observation    *)
(* can become a verdict.                                                   *)
(***************************************************************************)
EXTENDS Integers, Sequences, FiniteSets, TLC, Json, IOUtils
\* CopyShares = TRUE is the algorithm before the repair (bucket slices shared by Copy): its
\* isolation-breaking histories are kept as adversarial replays.  FALSE is the repaired
\* algorithm (Copy copies every bucket), for which TLC must find no such history.
CopyShares == IF "VCOPYSHARES" \in DOMAIN IOEnv THEN IOEnv.VCOPYSHARES = "1" ELSE FALSE
Elems == 1..5            \* four mutually non-equivalent elements of ONE hash bucket
ISlots == {"s1", "s2"}
VARIABLES heap, sl, ihist, broken
ivars == <<heap, sl, ihist, broken>>
\* heap: sequence of arrays [cells: Seq(Elems \cup {0}), cap]; sl: slot -> [arr, len] (arr = 0: no bucket)
IInit == heap = <<>> /\ sl = [s \in ISlots |-> [arr |-> 0, len |-> 0]] /\ ihist = <<>> /\ broken = FALSE
MembersOf(h, x) == IF x.arr = 0 THEN <<>> ELSE SubSeq(h[x.arr].cells, 1, x.len)
Grow(c) == IF c = 0 THEN 1 ELSE 2 * c
Pad(seq, n) == seq \o [i \in 1..(n - Len(seq)) |-> 0]
AddTo(h, x, e) ==      \* returns <<heap', slice'>>
  IF \E i \in 1..x.len : x.arr # 0 /\ h[x.arr].cells[i] = e THEN <<h, x>>
  ELSE IF x.arr # 0 /\ x.len < h[x.arr].cap
       THEN <<[h EXCEPT ![x.arr].cells[x.len + 1] = e], [x EXCEPT !.len = @ + 1]>>
       ELSE LET c == Grow(IF x.arr = 0 THEN 0 ELSE h[x.arr].cap)
                cells == Pad(Append(MembersOf(h, x), e), c)
            IN <<Append(h, [cells |-> cells, cap |-> c]), [arr |-> Len(h) + 1, len |-> x.len + 1]>>
RemoveFrom(h, x, e) ==
  IF ~\E i \in 1..x.len : x.arr # 0 /\ h[x.arr].cells[i] = e THEN <<h, x>>
  ELSE LET rest == SelectSeq(MembersOf(h, x), LAMBDA y : y # e) IN
       IF rest = <<>> THEN <<h, [arr |-> 0, len |-> 0]>>
       ELSE <<Append(h, [cells |-> rest, cap |-> Len(rest)]), [arr |-> Len(h) + 1, len |-> Len(rest)]>>
Other(s) == CHOOSE t \in ISlots : t # s
Step(o) ==
  /\ Len(ihist) < 6 /\ ~broken
  /\ LET s == o.s
         r == CASE o.op = "Add" -> AddTo(heap, sl[s], o.e)
                [] o.op = "Remove" -> RemoveFrom(heap, sl[s], o.e)
                [] o.op = "Copy" -> IF CopyShares \/ sl[s].arr = 0 THEN <<heap, sl[s]>>
                                    ELSE <<Append(heap, [cells |-> MembersOf(heap, sl[s]), cap |-> sl[s].len]), [arr |-> Len(heap) + 1, len |-> sl[s].len]>>
         tgt == IF o.op = "Copy" THEN o.t ELSE s
         sl2 == [sl EXCEPT ![tgt] = r[2]]
     IN /\ heap' = r[1] /\ sl' = sl2
        /\ broken' = (MembersOf(r[1], sl2[Other(tgt)]) # MembersOf(heap, sl[Other(tgt)]))
  /\ ihist' = Append(ihist, o)
IOps == {[op |-> "Add", s |-> s, e |-> e] : s \in ISlots, e \in Elems}
        \cup {[op |-> "Remove", s |-> s, e |-> e] : s \in ISlots, e \in Elems}
        \cup {[op |-> "Copy", s |-> s, t |-> Other(s)] : s \in ISlots}
INext == \E o \in IOps : Step(o)
ISpec == IInit /\ [][INext]_ivars
\* not an assertion about the code: a printer of predicted counterexamples
EmitBroken == broken => PrintT(ToJson([beh |-> ihist]))
NeverBroken == ~broken
IView == <<heap, sl, broken>>
=============================================================================
