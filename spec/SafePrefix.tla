----------------------------- MODULE SafePrefix -----------------------------
(* C05, last clause: a string prefix recorded through the safe constructor    *)
(* (Refine().StringPrefix) is a prefix of the normalized form of every string *)
(* that extends the given prefix.  The abstract alphabet names the code       *)
(* points whose neighbours can change earlier characters: combining marks,    *)
(* Hangul jamo, emoji modifiers, joiners, regional indicators, CR/LF, plus    *)
(* ASCII letters and delimiters.  The contract is purely relational on the    *)
(* observed rune sequences.                                                   *)
EXTENDS Values
Alphabet == <<"a", "b", "E", "e", "acute", "L", "V", "T", "H", "Z", "M", "W", "R", "CR", "LF", "/", " ", "=", "S", "<", "cedilla", "dot">>
SmallAlphabet == <<"a", "e", "acute", "L", "V", "Z", "M", "W", "R", "CR", "LF", "=", "S", "cedilla">>
AlphaSet(A) == {A[i] : i \in 1..Len(A)}
SafeFailed(e) ==
  (IF IsPrefix(e.rec, e.full) THEN {} ELSE {"C05.SafePrefix"})
  \cup (IF e.incl = "F" THEN {"C05.SafePrefixIncludes"} ELSE {})
  \cup (IF e.recfull # <<>> /\ ~IsPrefix(e.rec, e.recfull) THEN {"C05.SafePrefixIsPrefixOfGiven"} ELSE {})
=============================================================================
