------------------------------- MODULE Decoders ------------------------------
(***************************************************************************)
(* Decoder safety (C17): for every input and target type each decoder      *)
(* returns an error or a well-formed result (for value decoders: of a type *)
(* conforming to the target); never panics; bounded allocation.            *)
(* Inputs are TOKEN TREES enumerated by TLC (the harness turns them into   *)
(* bytes, and may lie about length fields as the tree says):               *)
(*  MessagePack: [m |-> "nil"|"bool"|"int"|"float"|"str"|"bin"|"arr"|"map"  *)
(*                     |"ext"|"unk"|"unkrf"|"raw", ...]                    *)
(*  JSON: the documents of JsonDoc.tla plus raw text fragments             *)
(***************************************************************************)
EXTENDS JsonDoc
MNil == [m |-> "nil"]
MBool(b) == [m |-> "bool", b |-> b]
MInt(i) == [m |-> "int", i |-> i]
MFloat(q) == [m |-> "float", q |-> q]          \* q quarters; 999 = NaN, 998 = +Inf
MStr(s) == [m |-> "str", s |-> s]
MBin(s) == [m |-> "bin", s |-> s]
MArr(a, n) == [m |-> "arr", a |-> a, n |-> n]    \* n: declared length (-1 = truthful)
MMap(o, n) == [m |-> "map", o |-> o, n |-> n]    \* o: sequence of [k, v] token pairs
MExt(code, blen) == [m |-> "ext", code |-> code, blen |-> blen]       \* body of blen zero bytes
MUnk == [m |-> "unk"]                            \* d4 00 00
MUnkRf(rf, n) == [m |-> "unkrf", rf |-> rf, n |-> n]   \* ext 0x0c holding a map of refinement entries [k, v]
MP(k, v) == [k |-> k, v |-> v]

\* ---- refinement maps for the unknown-value extension
GoodVal(key) == CASE key = 1 -> {MBool(FALSE), MBool(TRUE)}
                  [] key = 2 -> {MStr(<<"a">>), MStr(<<"a", "b">>)}
                  [] key \in {3, 4} -> {MArr(<<MInt(n), MBool(inc)>>, -1) : n \in {0, 5}, inc \in BOOLEAN}
                  [] key \in {5, 6} -> {MInt(0), MInt(2), MInt(5)}
                  [] OTHER -> {MInt(1)}
BadVal(key) == CASE key = 1 -> {MInt(1), MNil}
                 [] key = 2 -> {MInt(1), MBin(<<"a">>)}
                 [] key \in {3, 4} -> {MInt(3), MArr(<<MInt(1)>>, -1), MArr(<<MStr(<<"a">>), MBool(TRUE)>>, -1), MArr(<<MNil, MBool(TRUE)>>, -1), MArr(<<MUnk, MBool(TRUE)>>, -1), MArr(<<MInt(1), MNil>>, -1)}
                 [] key \in {5, 6} -> {MStr(<<"a">>), MInt(-1), MArr(<<MInt(1), MBool(TRUE)>>, -1)}
                 [] OTHER -> {MNil}
RfKeys == {1, 2, 3, 4, 5, 6, 9}
Entries == UNION {{MP(MInt(k), v) : v \in GoodVal(k) \cup BadVal(k)} : k \in RfKeys} \cup {MP(MStr(<<"a">>), MInt(1))}
GoodEntries == UNION {{MP(MInt(k), v) : v \in GoodVal(k)} : k \in RfKeys}

\* does the refinement map describe an impossible / ill-typed refinement for target type t?  (then decoding MUST fail)
KeyOf(e) == IF e.k.m = "int" THEN e.k.i ELSE 0
IsGood(e) == e \in GoodEntries
NumOf(e) == e.v.a[1].i
IncOf(e) == e.v.a[2].b
MustFail(rf, t) ==
  (\A i \in 1..Len(rf) : KeyOf(rf[i]) \in 1..6 /\ IsGood(rf[i])) /\
  LET ks(k) == {i \in 1..Len(rf) : KeyOf(rf[i]) = k} IN
  \* (ill-typed entry values are not demanded to fail: the decoder may read them leniently; only
  \*  refinements that no value can satisfy, or that do not apply to the type, must be rejected)
  \* and only when every key is one of the six known keys (the decoder ignores unknown keys; their values are not modelled)
  \/ FALSE
  \/ (t.k # "dynamic" /\ \E i \in ks(2) : t.k # "string")
  \/ (t.k # "dynamic" /\ \E i \in ks(3) \cup ks(4) : t.k # "number")
  \/ (t.k # "dynamic" /\ \E i \in ks(5) \cup ks(6) : ~IsCollT(t))
  \/ (t.k # "dynamic" /\ \E i, j \in ks(1) : IsGood(rf[i]) /\ IsGood(rf[j]) /\ rf[i].v.b # rf[j].v.b)                 \* null and not-null
  \/ (t.k = "number" /\ \E i \in ks(3), j \in ks(4) : IsGood(rf[i]) /\ IsGood(rf[j]) /\
         (NumOf(rf[i]) > NumOf(rf[j]) \/ (NumOf(rf[i]) = NumOf(rf[j]) /\ ~(IncOf(rf[i]) /\ IncOf(rf[j])))))          \* empty interval
  \/ (IsCollT(t) /\ \E i \in ks(5), j \in ks(6) : IsGood(rf[i]) /\ IsGood(rf[j]) /\ rf[i].v.i > rf[j].v.i)          \* min length > max length
  \/ (t.k = "string" /\ \E i, j \in ks(2) : IsGood(rf[i]) /\ IsGood(rf[j]) /\ ~(IsPrefix(rf[i].v.s, rf[j].v.s) \/ IsPrefix(rf[j].v.s, rf[i].v.s)))

\* ---- well-formed types
RECURSIVE TypeOK(_)
TypeOK(t) ==
  /\ Has(t, "k")
  /\ CASE t.k \in {"bool", "number", "string", "dynamic"} -> TRUE
       [] t.k \in CollKinds -> Has(t, "e") /\ TypeOK(t.e)
       [] t.k = "tuple" -> \A i \in 1..Len(t.es) : TypeOK(t.es[i])
       [] t.k = "object" -> (\A n \in DOMAIN t.as : TypeOK(t.as[n])) /\ ToSet(t.opt) \subseteq DOMAIN t.as
       [] t.k = "capsule" -> TRUE
       [] OTHER -> FALSE

(***************************************************************************)
(* One decoder call: e = [dec, target (value decoders), len, alloc (KiB),   *)
(*                        out = R | [ok, t], mustfail]                      *)
(***************************************************************************)
ValueDecoders == {"msgpack.Unmarshal", "json.Unmarshal"}
\* 4 MiB + 4 KiB per input byte: building a value costs a few KiB of (cumulative) allocation per encoded element, e.g.
\* about 4.4 MiB for a 2.7 kB encoding of a 1030-element set; what the rule is after is allocation driven by DECLARED sizes
AllocBoundKiB(len) == 4096 + 4 * len
DecFailed(e) ==
  (IF ~e.out.ok /\ e.out.fail = "panic" THEN {"C17.NoPanic"} ELSE {})
  \cup (IF e.dec \in ValueDecoders /\ e.out.ok THEN
          (IF TypeOK(e.out.val.ty) /\ WellFormed(e.out.val) THEN {} ELSE {"C17.ResultWellFormed"})
          \cup (IF TypeOK(e.out.val.ty) /\ Conforms(e.out.val.ty, e.target) THEN {} ELSE {"C17.ResultConformsToTarget"})
        ELSE {})
  \cup (IF e.dec \notin ValueDecoders /\ e.out.ok /\ ~TypeOK(e.out.t) THEN {"C17.TypeWellFormed"} ELSE {})
  \cup (IF e.alloc > AllocBoundKiB(e.len) THEN {"C17.AllocationBounded"} ELSE {})
  \cup (IF e.mustfail /\ e.out.ok THEN {"C17.ContradictoryRefinementRejected"} ELSE {})
=============================================================================
