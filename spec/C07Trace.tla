------------------------------ MODULE C07Trace ------------------------------
EXTENDS C07Types, Json, IOUtils
Trace == ndJsonDeserialize(IOEnv.VTRACE)
GenFile == IOEnv.VGEN
Gen == IF GenFile = "" THEN <<>> ELSE ndJsonDeserialize(GenFile)
VARIABLES l, cnt
T(i) == Trace[i].t            \* tdef events come first, in index order
Failed(i) ==
  LET e == Trace[i] IN
  CASE e.ev = "tdef"  -> IF e.i # i THEN {"Echo"}
                         ELSE IF Gen # <<>> /\ i <= Len(Gen) /\ ~TEquals(e.t, Gen[i].t) THEN {"Echo"} ELSE {}   \* entries beyond Gen: library-derived representations
    [] e.ev = "tone"  -> ToneFailed(e, T(e.i))
    [] e.ev = "tpair" -> PairFailed(e, T(e.i), T(e.j))
    [] e.ev = "tsame" -> IF e.t = T(e.i) THEN {} ELSE {"C20.TypeImmutable"}      \* a type reports the same definition after being operated on
    [] OTHER -> {"UnknownEvent"}
Init == l = 1 /\ cnt = [k \in {"tdef", "tone", "tpair", "tsame", "nontrivial"} |-> 0]
Next == /\ l <= Len(Trace)
        /\ \A r \in Failed(l) : PrintT(<<"VIOL", l, r>>)
        /\ l' = l + 1
        /\ LET e == Trace[l] IN
           cnt' = [cnt EXCEPT ![e.ev] = @ + 1,
                              !["nontrivial"] = @ + (IF e.ev = "tpair" /\ ~Has(e, "panic") /\ e.i # e.j /\ (e.eq \/ e.nerr = 0 \/ e.seq) THEN 1 ELSE 0)]
        /\ (l = Len(Trace) => PrintT(<<"DONE", l, cnt'>>))
=============================================================================
