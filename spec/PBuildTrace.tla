----------------------------- MODULE PBuildTrace ----------------------------
EXTENDS PathBuildSM
Trace == ndJsonDeserialize(IOEnv.VTRACE)
VARIABLES l, cnt, model
Init == l = 1 /\ cnt = [events |-> 0, nontrivial |-> 0, behaviours |-> 0] /\ model = [r \in BRegs |-> <<>>]
        /\ bregs = [r \in BRegs |-> <<>>] /\ bhist = <<>>
Next == /\ l <= Len(Trace)
        /\ LET e == Trace[l] IN
           IF e.ev = "breset"
           THEN /\ model' = [r \in BRegs |-> <<>>]
                /\ (e.steps # BSteps => PrintT(<<"INCON", l, "StepsEcho">>))
                /\ cnt' = [cnt EXCEPT !.events = @ + 1, !.behaviours = @ + 1]
           ELSE LET m2 == BApply(model, e.o) IN
                /\ (Has(e, "panic") => PrintT(<<"VIOL", l, "C19.PathBuildPanics">>))
                /\ (~Has(e, "panic") /\ (\E r \in BRegs : e.regs[r] # m2[r]) => PrintT(<<"VIOL", l, "C19.PathStepsIndependent">>))
                \* Path.HasPrefix / Path.Equals between any two registers are the prefix / equality relations of the step sequences
                /\ (Has(e, "hp") /\ (\E x, y \in BRegs : Has(e.hp[x], y) /\ e.hp[x][y] # (Len(m2[y]) <= Len(m2[x]) /\ SubSeq(m2[x], 1, Len(m2[y])) = m2[y])) => PrintT(<<"VIOL", l, "C19.PathHasPrefix">>))
                /\ (Has(e, "eq") /\ (\E x, y \in BRegs : Has(e.eq[x], y) /\ e.eq[x][y] # (m2[x] = m2[y])) => PrintT(<<"VIOL", l, "C19.PathEquals">>))
                /\ model' = m2
                /\ cnt' = [cnt EXCEPT !.events = @ + 1, !.nontrivial = @ + (IF m2 # model THEN 1 ELSE 0)]
        /\ l' = l + 1 /\ UNCHANGED <<bregs, bhist>>
        /\ (l = Len(Trace) => PrintT(<<"DONE", l, cnt'>>))
=============================================================================
