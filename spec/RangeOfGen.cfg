INIT Init
NEXT Next
