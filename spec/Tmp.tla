---- MODULE Tmp ----
EXTENDS Refine, Json
T == ndJsonDeserialize("/tmp/t1/rev.ndjson")
o == UnmarkDeep(T[5].orig)
ASSUME PrintT(<<o, T[6].call, Contradictory(o, NoRf, T[6].call), Applies(T[6].call, o.ty), o # DynVal>>)
Init == orig = DynVal /\ r = NoRf /\ said = <<>> /\ status = "gen"
Next == UNCHANGED <<orig, r, said, status>>
====
