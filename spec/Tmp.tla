---- MODULE Tmp ----
EXTENDS Values, Json
J == ndJsonDeserialize("/tmp/t1/x.ndjson")
ASSUME PrintT(<<"1", Cardinality({[a |-> 1], <<>>})>>)
ASSUME PrintT(<<"2", [a |-> 1] = <<>>, <<>> = [a |-> 1]>>)
ASSUME PrintT(<<"3", J[1].e, J[1].l, J[1].e = J[1].l, J[1].e = <<>>, J[1].l = [x \in {} |-> 1], Cardinality({J[1].e, J[1].l, [a |-> 1], J[1].r})>>)
ASSUME PrintT(<<"4", J[1].r = [a |-> 1], [a |-> 1] = J[1].e, J[1].l = [a |-> 1], [x \in {"a"} |-> 1] = J[1].r,  Cardinality({[x \in {"a"} |-> 1], J[1].r, J[1].e})>>)
ASSUME PrintT(<<"5", DOMAIN J[1].e, DOMAIN J[1].l, Len(J[1].e)>>)
VARIABLE x
Init == x = 0
Next == UNCHANGED x
====
