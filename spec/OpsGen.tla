------------------------------- MODULE OpsGen -------------------------------
(* Vector generator for the operation methods.  VMODE selects the family:   *)
(*   weak  : (concrete, weakened) pairs for C01                             *)
(*   call  : single calls on wholly known (and ill-typed) operands for C02  *)
(*   mark  : marked operand tuples for C04                                  *)
(* VAPI selects the operation (one TLC process per operation).              *)
EXTENDS Ops, Json
Api  == IOEnv.VAPI
Mode == IOEnv.VMODE
ShardI == EnvInt("VSHARDI", 0)
ShardN == EnvInt("VSHARDN", 1)

\* ---- weakening of operand tuples
Lite1(v) == Weak1(v, TRUE)
Full1(v) == Weak1(v, FALSE)
DeepW(v) == IF Thorough THEN WeakN(v, 2, FALSE) \ {v} ELSE Full1(v)
WeakUnary(x)  == {<<w>> : w \in DeepW(x) \cup {DynVal}}
WeakBinary(x, y) ==
     {<<w, y>> : w \in DeepW(x) \cup {DynVal}}
  \cup {<<x, w>> : w \in DeepW(y) \cup {DynVal}}
  \* (interval arithmetic on two bounded unknowns: the full product of the refinement menus also in the quick tier)
  \cup (IF (Thorough \/ Api \in {"Add", "Subtract", "Multiply"}) /\ IsPrimT(x.ty) /\ IsPrimT(y.ty)
        THEN {<<w1, w2>> : w1 \in Full1(x), w2 \in Full1(y)}
        ELSE {<<w1, w2>> : w1 \in Lite1(x), w2 \in Lite1(y)})
IsLmV(v) == v.st = "k" /\ v.ty.k = "number" /\ Has(v.v, "lm")
WeakTuples(a) == IF Len(a) = 1 THEN WeakUnary(a[1])
                 ELSE IF Len(a) = 2 /\ (IsLmV(a[1]) # IsLmV(a[2])) /\ \E i \in 1..2 : Has(a[i].v, "dec")       \* SameDec: weaken the ordered operand only
                      THEN (IF IsLmV(a[1]) THEN {<<w, a[2]>> : w \in Full1(a[1])} ELSE {<<a[1], w>> : w \in Full1(a[2])})
                 ELSE WeakBinary(a[1], a[2])

NoLm(a) == \A i \in 1..Len(a) : ~(IsNumK(a[i]) /\ (Has(a[i].v, "lm") \/ Has(a[i].v, "dec")))
Tuples0 == IF Api \in EqOps THEN UNION {EqPairs(t) : t \in EqTypes} ELSE ArgTuples(Api)
\* one decimal held at 512 bits (a small landmark, ordered in the model: it is the operand that gets weakened) compared with the same decimal
\* held as a float64 (equal for cty, a different rational; left as it is)
SameDec == IF Api \in NumCmp /\ Mode = "weak"
           THEN {<<NumK([lm |-> "tenth"]), K(TNum, [dec |-> "1/10", rep |-> 1])>>, <<K(TNum, [dec |-> "1/10", rep |-> 1]), NumK([lm |-> "tenth"])>>,
                 <<NumK([lm |-> "third"]), K(TNum, [dec |-> "1/3", rep |-> 1])>>, <<K(TNum, [dec |-> "1/3", rep |-> 1]), NumK([lm |-> "third"])>>} ELSE {}
Tuples == (IF Mode = "call" THEN Tuples0 ELSE {a \in Tuples0 : NoLm(a)}) \cup SameDec      \* landmark operands: single calls only (their interval arithmetic has no order in the model)

\* One output line per concrete operand tuple, carrying the set of its variants
\* (weakened tuples / mark placements); the harness expands them.  (A single flat set of
\* all vectors makes TLC sort ~10^5 deep records, which is far slower.)
TSeq == SetToSeq(Tuples)
MarkTuples(a) == IF Len(a) = 1 THEN {<<m>> : m \in MarkPlacements(a[1])}
                 ELSE {<<m, a[2]>> : m \in MarkPlacements(a[1])} \cup {<<a[1], m>> : m \in MarkPlacements(a[2])}
                      \cup {<<WithMk(a[1], <<"m1">>), WithMk(a[2], <<"m2">>)>>}
\* marks combined with unknown / null operands: weaken first, then mark
MarkVariants(a) == MarkTuples(a) \cup UNION {MarkTuples(w) : w \in TakeN(WeakTuples(a), 2)}
XSeq(a) == SetToSeq(XAll(Api, a))
CS == IF Mode = "call" THEN SetToSeq(Tuples \cup IllTyped(Api)) ELSE TSeq
Mine == SetToSeq({i \in 1..Len(CS) : i % ShardN = ShardI})
Line(a) ==
  CASE Mode = "weak" -> [k |-> "weak", api |-> Api, xs |-> XSeq(a), a |-> a, vs |-> SetToSeq(WeakTuples(a))]
    [] Mode = "mark" -> [k |-> "mark", api |-> Api, xs |-> XSeq(a), a |-> a, vs |-> SetToSeq(MarkVariants(a))]
    [] Mode = "call" -> [k |-> "call", api |-> Api, xs |-> XSeq(a), a |-> a, vs |-> <<>>]
ASSUME ndJsonSerialize(IOEnv.VOUT, [j \in 1..Len(Mine) |-> Line(CS[Mine[j]])])
ASSUME PrintT(<<"GEN", Len(Mine)>>)
VARIABLE x
Init == x = 0
Next == UNCHANGED x
=============================================================================
