-------------------------------- MODULE Walk --------------------------------
(***************************************************************************)
(* Paths, walking, transforming and path-indexed marks.    [C19]           *)
(* A path is a sequence of steps [s |-> "attr", n |-> name] or             *)
(* [s |-> "idx", key |-> value].                                           *)
(***************************************************************************)
EXTENDS Values
RevSeqW(sq) == [i \in 1..Len(sq) |-> sq[Len(sq) + 1 - i]]
AttrStep(n) == [s |-> "attr", n |-> n]
IdxStep(k)  == [s |-> "idx", key |-> k]
NameKey(n) == StrV(<<n>>)             \* attribute / map key names are single characters here

\* children of a known non-null structural value: sequence of <<step, member>>
ChildSteps(v) ==
  LET u == v IN
  IF u.st # "k" THEN <<>>
  ELSE CASE u.ty.k \in {"list", "tuple"} -> [i \in 1..Len(Elems(u)) |-> <<IdxStep(NumV(4 * (i - 1))), Elems(u)[i]>>]
         [] u.ty.k = "set" -> [i \in 1..Len(Elems(u)) |-> <<IdxStep(Elems(u)[i]), Elems(u)[i]>>]
         [] u.ty.k = "map" -> LET ks == SetToSeq(DOMAIN Attrs(u)) IN [i \in 1..Len(ks) |-> <<IdxStep(NameKey(ks[i])), Attrs(u)[ks[i]]>>]
         [] u.ty.k = "object" -> LET ks == SetToSeq(DOMAIN Attrs(u)) IN [i \in 1..Len(ks) |-> <<AttrStep(ks[i]), Attrs(u)[ks[i]]>>]
         [] OTHER -> <<>>

RECURSIVE VisitSet(_, _)
VisitSet(v, p) ==   \* every (path, member) pair a walk must report
  {[p |-> p, v |-> v]} \cup UNION {VisitSet(ChildSteps(v)[i][2], Append(p, ChildSteps(v)[i][1])) : i \in 1..Len(ChildSteps(v))}
RECURSIVE CountMembers(_)
CountMembers(v) == 1 + (LET cs == ChildSteps(v) IN
                        LET RECURSIVE S(_) S(i) == IF i > Len(cs) THEN 0 ELSE CountMembers(cs[i][2]) + S(i + 1) IN S(1))

UnderSet(root, p) ==   \* does the path pass through a set?
  LET RECURSIVE U(_, _) U(v, i) == IF i > Len(p) THEN FALSE ELSE
        IF v.st = "k" /\ v.ty.k = "set" THEN TRUE
        ELSE LET cs == ChildSteps(v) m == {k \in 1..Len(cs) : cs[k][1] = p[i]} IN
             IF m = {} THEN FALSE ELSE U(cs[CHOOSE k \in m : TRUE][2], i + 1)
  IN U(root, 1)

\* does step st name an existing member of v?   "Y" yes, "N" no, "U" not decided by the property (unknown container)
StepValid(v, st) ==
  IF v.st = "null" THEN "N"
  ELSE IF st.s = "attr" THEN (IF v.ty.k = "object" /\ st.n \in DOMAIN v.ty.as THEN "Y" ELSE "N")
  ELSE LET k == st.key IN
       IF k.st # "k" THEN "U"
       ELSE IF k.ty.k = "number" THEN
              (IF v.ty.k = "tuple" THEN (IF Has(k.v, "q") /\ k.v.q >= 0 /\ k.v.q % 4 = 0 /\ k.v.q \div 4 < Len(v.ty.es) THEN "Y" ELSE "N")
               ELSE IF v.ty.k = "list" THEN (IF v.st # "k" THEN "U" ELSE IF Has(k.v, "q") /\ k.v.q >= 0 /\ k.v.q % 4 = 0 /\ k.v.q \div 4 < Len(Elems(v)) THEN "Y" ELSE "N")
               ELSE "N")
       ELSE IF k.ty.k = "string" THEN
              (IF v.ty.k = "map" THEN (IF v.st # "k" THEN "U" ELSE IF Len(StrOf(k)) = 1 /\ StrOf(k)[1] \in DOMAIN Attrs(v) THEN "Y" ELSE "N") ELSE "N")
       ELSE "N"
StepInto(v, st) ==      \* the member named by a valid step of a KNOWN container (or typed unknown member)
  IF st.s = "attr" THEN (IF v.st = "k" THEN Attrs(v)[st.n] ELSE Unk(v.ty.as[st.n], NoRf))
  ELSE IF v.ty.k = "map" THEN Attrs(v)[StrOf(st.key)[1]]
  ELSE IF v.st = "k" THEN Elems(v)[st.key.v.q \div 4 + 1]
  ELSE Unk(v.ty.es[st.key.v.q \div 4 + 1], NoRf)
RECURSIVE PathValid(_, _)
PathValid(v, p) == IF p = <<>> THEN "Y"
                   ELSE LET sv == StepValid(v, p[1]) IN IF sv # "Y" THEN sv ELSE PathValid(StepInto(v, p[1]), Tail(p))
RECURSIVE SpecAt(_, _)
SpecAt(v, p) == IF p = <<>> THEN v ELSE SpecAt(StepInto(v, p[1]), Tail(p))

RECURSIVE ReplaceMember(_, _, _)
ReplaceMember(v, p, r) ==
  IF p = <<>> THEN r
  ELSE LET st == p[1] IN
       IF st.s = "attr" THEN SetAttr(v, st.n, ReplaceMember(Attrs(v)[st.n], Tail(p), r))
       ELSE IF v.ty.k = "map" THEN SetAttr(v, StrOf(st.key)[1], ReplaceMember(Attrs(v)[StrOf(st.key)[1]], Tail(p), r))
       ELSE SetElem(v, st.key.v.q \div 4 + 1, ReplaceMember(Elems(v)[st.key.v.q \div 4 + 1], Tail(p), r))

\* marks by path
RECURSIVE MarkPaths(_, _)
MarkPaths(v, p) == (IF v.mk # <<>> THEN {[p |-> p, m |-> ToSet(v.mk)]} ELSE {})
                   \cup UNION {MarkPaths(ChildSteps(v)[i][2], Append(p, ChildSteps(v)[i][1])) : i \in 1..Len(ChildSteps(v))}
TopStrip(v) == [v EXCEPT !.mk = <<>>]
NoNfc(v) == v

(***************************************************************************)
(* Rules over events                                                       *)
(***************************************************************************)
VisitRec(x) == [p |-> x.p, v |-> x.v]
WalkFailed(e) ==
  LET root == e.root  vs == e.visits  n == Len(vs)
      seen == {VisitRec(vs[i]) : i \in 1..n} IN
  (IF n = CountMembers(root) /\ seen = VisitSet(root, <<>>) THEN {} ELSE {"C19.EachMemberOnce"})
  \cup (IF \A i \in 1..n : vs[i].p = <<>> \/ \E j \in 1..(i - 1) : vs[j].p = SubSeq(vs[i].p, 1, Len(vs[i].p) - 1) THEN {} ELSE {"C19.ParentsFirst"})
  \cup (IF \A i \in 1..n : UnderSet(root, vs[i].p) \/ (vs[i].ap.ok /\ TopStrip(vs[i].ap.val) = TopStrip(vs[i].v)) THEN {} ELSE {"C19.PathLeadsBack"})
  \cup (IF e.tid.ok /\ e.tid.val = root THEN {} ELSE {"C19.IdentityTransform"})
  \cup (IF {e.tvisits[i].p : i \in 1..Len(e.tvisits)} = {vs[i].p : i \in 1..n} /\ Len(e.tvisits) = n THEN {} ELSE {"C19.TransformVisitsSamePaths"})
  \cup (IF e.um.ok /\ e.um.re = root /\ e.um.v = UnmarkDeep(root)
           /\ {[p |-> e.um.pvm[i].p, m |-> ToSet(e.um.pvm[i].m)] : i \in 1..Len(e.um.pvm)} = MarkPaths(root, <<>>)
        THEN {} ELSE {"C19.UnmarkRemarkRestores"})
  \* the caller's list of paths is an input: marking with it again gives the same value, and the list is unchanged
  \cup (IF e.um.ok /\ Has(e.um, "re2") /\ ~(e.um.re2 = root /\ e.um.pvm2 = e.um.pvm) THEN {"C19.MarkWithPathsReusable"} ELSE {})
  \cup (IF e.um.ok /\ Has(e.um, "re3") /\ ~(e.um.re3 = root /\ e.um.re4 = root /\ e.um.rev2 = RevSeqW(e.um.pvm)) THEN {"C19.MarkWithPathsReusable"} ELSE {})
  \cup (IF e.tid.ok /\ ~WellFormed(e.tid.val) THEN {"C06.WellFormed"} ELSE {})
ApplyFailed(e) ==
  LET pv == PathValid(e.root, e.p) IN
  IF pv = "U" THEN {}
  ELSE IF pv = "Y" THEN (IF e.r.ok /\ TopStrip(e.r.val) = TopStrip(SpecAt(e.root, e.p)) THEN {} ELSE {"C19.ApplyIffValid"})
  ELSE (IF e.r.ok THEN {"C19.ApplyIffValid"} ELSE (IF e.r.fail = "panic" THEN {"C19.ApplyNoPanic"} ELSE {}))
ReplFailed(e) ==
  IF e.res.ok /\ e.res.val = ReplaceMember(e.root, e.p, e.r) THEN {} ELSE {"C19.ReplaceOnlyThere"}
=============================================================================
