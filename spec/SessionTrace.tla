---------------------------- MODULE SessionTrace ----------------------------
EXTENDS Session
Trace == ndJsonDeserialize(IOEnv.VTRACE)
VARIABLES l, cnt, live
Init == l = 1 /\ cnt = [events |-> 0, nontrivial |-> 0, sessions |-> 0] /\ live = <<>> /\ store = S0 /\ shist = <<>>
Next == /\ l <= Len(Trace)
        /\ LET e == Trace[l] IN
           IF e.ev = "sstart"
           THEN /\ live' = e.snap
                /\ (e.snap # S0 => PrintT(<<"INCON", l, "InitialStoreEcho">>))
                /\ cnt' = [cnt EXCEPT !.events = @ + 1, !.sessions = @ + 1]
           ELSE /\ \A x \in StepFailed(live, e) : PrintT(<<"VIOL", l, x>>)
                /\ live' = e.snap
                /\ cnt' = [cnt EXCEPT !.events = @ + 1, !.nontrivial = @ + (IF e.applied THEN 1 ELSE 0)]
        /\ l' = l + 1 /\ UNCHANGED <<store, shist>>
        /\ (l = Len(Trace) => PrintT(<<"DONE", l, cnt'>>))
=============================================================================
