----------------------------- MODULE ConcTrace ------------------------------
(* Results of read-only calls executed by several goroutines on SHARED operand *)
(* values must all equal the sequential result.                         [C20] *)
EXTENDS Values, Json
Trace == ndJsonDeserialize(IOEnv.VTRACE)
VARIABLES l, cnt
Init == l = 1 /\ cnt = [events |-> 0, nontrivial |-> 0]
Next == /\ l <= Len(Trace)
        /\ LET e == Trace[l] IN
           /\ (e.rconc # <<e.rseq>> => PrintT(<<"VIOL", l, "C20.ConcurrentSameAsSequential">>))
           /\ cnt' = [cnt EXCEPT !.events = @ + 1, !.nontrivial = @ + (IF e.rseq.ok THEN 1 ELSE 0)]
        /\ l' = l + 1
        /\ (l = Len(Trace) => PrintT(<<"DONE", l, cnt'>>))
=============================================================================
