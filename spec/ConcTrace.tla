----------------------------- MODULE ConcTrace ------------------------------
(* Results of read-only calls executed by several goroutines on SHARED operand *)
(* values must all equal the sequential result.                         [C20] *)
EXTENDS Values, Json
Trace == ndJsonDeserialize(IOEnv.VTRACE)
VARIABLES l, cnt
Init == l = 1 /\ cnt = [events |-> 0, nontrivial |-> 0]
Next == /\ l <= Len(Trace)
        /\ LET e == Trace[l] IN
           /\ (e.rconc # <<e.rseq>> => PrintT(<<"VIOL", l, "C20.ConcurrentSameAsSequential">>))
           \* the read-only battery (accessors, hash, range, conversion, encoders, walk, type operations) run by every goroutine
           \* on the shared operands reported what the sequential run reported
           /\ (Has(e, "bseq") /\ e.bconc # <<e.bseq>> => PrintT(<<"VIOL", l, "C20.ConcurrentSameAsSequential">>))
           /\ cnt' = [cnt EXCEPT !.events = @ + 1, !.nontrivial = @ + (IF e.rseq.ok THEN 1 ELSE 0)]
        /\ l' = l + 1
        /\ (l = Len(Trace) => PrintT(<<"DONE", l, cnt'>>))
=============================================================================
