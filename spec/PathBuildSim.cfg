SPECIFICATION BSpec
INVARIANTS BEmit
CHECK_DEADLOCK FALSE
