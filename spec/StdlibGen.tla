------------------------------ MODULE StdlibGen -----------------------------
(* Argument lists for one standard-library function (VFNI = index into the     *)
(* signature file), from pools chosen by each parameter's declared constraint. *)
(* VMODE: call (C11, with null / unknown / dynamic / marked injections),       *)
(*        weak (C12), mark (C04)                                               *)
EXTENDS Stdlib, Json, Randomization
Sigs == ndJsonDeserialize(IOEnv.VSIGS)
F == Sigs[EnvInt("VFNI", 1)]
Mode == IOEnv.VMODE
Api == "fn:" \o F.name

NumP == {NumV(0), NumV(4), NumV(8), NumV(-4), NumV(2), NumV(12), K(TNum, PInf), NumV(-10), NumV(40), K(TNum, [lm |-> "i64max"]), K(TNum, [lm |-> "u64maxp"])}
S(x) == StrV(x)
StrP == {S(<<>>), S(<<"a">>), S(<<"a", "b">>), S(<<"b", " ", "a">>), S(<<"%", "d">>), S(<<"%", "s", "-", "%", "s">>), S(<<"1">>), S(<<"1", "0">>),
         S(<<"A", "b">>), S(<<" ", "a", " ">>), S(<<"a", ",", "b">>), S(<<"(", "a", ")">>), S(<<"[">>), S(<<"{", "}">>), S(<<"a", "LF">>), S(<<"e", "acute">>),
         S(<<"t", "r", "u", "e">>), S(<<"%", "v">>), S(<<"n", "u", "l", "l">>), S(<<"1", "h">>),
         S(<<"a", ",", " ", "b", "LF", "1", ",", " ", "0", "LF">>), S(<<"a", ",", "b", "LF", "1", ",", "0">>),
         \* JSON documents with leading / trailing whitespace
         S(<<" ", "{", "}">>), S(<<"LF", "[", "1", "]", " ">>), S(<<" ", " ", "t", "r", "u", "e">>), S(<<"TAB", "1">>)}
DynTypes == {TNum, TStr, TBool, TList(TStr), TList(TNum), TSet(TStr), TSet(TNum), TMap(TNum), TMap(TStr), TTup(<<TNum, TStr>>), TTup(<<>>),
             TObj([a |-> TNum, b |-> TStr]), TObj(<<>>), TList(TList(TNum)), TTup(<<TList(TStr), TNum>>), TMap(TList(TStr)), TList(TObj([a |-> TNum])), TSet(TTup(<<TNum, TStr>>))}
RECURSIVE Pool(_)
Pool(t) ==
  CASE t.k = "number" -> NumP
    [] t.k = "string" -> StrP
    [] t.k = "bool" -> {BoolV(TRUE), BoolV(FALSE)}
    [] t.k = "dynamic" -> UNION {TakeN(Vals(x, W), 3) : x \in DynTypes} \cup {NumV(8), S(<<"a", "b">>)}
    [] t.k = "list" /\ t.e.k = "dynamic" -> UNION {TakeN(Vals(TList(x), W), 4) : x \in {TNum, TStr, TList(TNum), TObj([a |-> TNum]), TBool}}
    [] t.k = "set" /\ t.e.k = "dynamic" -> UNION {TakeN(Vals(TSet(x), W), 4) : x \in {TNum, TStr, TTup(<<TNum, TStr>>)}}
    [] t.k = "list" -> TakeN(Vals(t, W), 8) \cup {SeqV(t, <<S(<<"b">>), S(<<"a">>), S(<<"b">>)>>)}
    [] t.k = "capsule" /\ t.n = "bytes" -> {K(t, [c |-> "ab"]), K(t, [c |-> ""])}      \* the standard library's byte buffers
    [] OTHER -> {}
HasPool == \A i \in 1..Len(F.ps) : Pool(F.ps[i].ty) # {}
NP == Len(F.ps)
IsVar == ~Has(F.var, "none")
Extras == IF IsVar THEN (IF Thorough THEN 0..3 ELSE 0..2) ELSE {0}
PTy(i) == IF i <= NP THEN F.ps[i].ty ELSE F.var.ty
Thin(n) == IF Mode = "ref" THEN (IF n <= 1 THEN 200 ELSE IF n = 2 THEN 30 ELSE IF n = 3 THEN 9 ELSE 5)
           ELSE IF n <= 1 THEN 60 ELSE IF n = 2 THEN 12 ELSE IF n = 3 THEN 6 ELSE 4
Cap == IF Mode = "ref" THEN (IF Thorough THEN 3000 ELSE 600) ELSE IF Thorough THEN 400 ELSE 140
ListsOfLen(n) == LET pools == [i \in 1..n |-> RandomSubset(IF Cardinality(Pool(PTy(i))) < Thin(n) THEN Cardinality(Pool(PTy(i))) ELSE Thin(n), Pool(PTy(i)))]
                     all == {f \in [1..n -> UNION {pools[i] : i \in 1..n}] : \A i \in 1..n : f[i] \in pools[i]}
                 IN IF Cardinality(all) <= Cap THEN all ELSE RandomSubset(Cap, all)
BaseLists == IF ~HasPool THEN {} ELSE UNION {ListsOfLen(NP + x) : x \in Extras}

\* C11 injections: null / unknown / DynamicVal / dynamically typed null / marks at one position
TyOf(v) == v.ty
\* unknown / null values of the parameter's DECLARED constraint where it still contains the placeholder (set(dynamic), list(dynamic), ...)
DeclInj(i) == IF HasDyn(PTy(i)) /\ PTy(i).k # "dynamic" THEN {Unk(PTy(i), NoRf), Null(PTy(i)), Unk(PTy(i), [null |-> "F"])} ELSE {}
\* refined unknown values of the argument's type, including refinements that pin one dimension exactly while the value stays unknown
\* (an exact length with unknown nullness, a length the members of a set cannot make known, a single admitted number)
RefinedInj(t) == UnkVals(t) \cup
   (IF IsCollT(t) THEN {Unk(t, [null |-> "U", minLen |-> 1, maxLen |-> 1]), Unk(t, [null |-> "U", minLen |-> 2, maxLen |-> 2]), Unk(t, [null |-> "F", minLen |-> 2, maxLen |-> 2]), Unk(t, [null |-> "U", maxLen |-> 0])}
    ELSE IF t.k = "number" THEN {Unk(t, [null |-> "U", lo |-> Qn(4), loInc |-> TRUE, hi |-> Qn(4), hiInc |-> TRUE])} ELSE {})
Inject(a, i) == LET v == a[i] IN
   {[a EXCEPT ![i] = w] : w \in {Null(v.ty), Unk(v.ty, NoRf), Unk(v.ty, [null |-> "F"]), DynVal, Null(TDyn), WithMk(v, <<"m1">>), WithMk(Unk(v.ty, NoRf), <<"m2">>)} \cup DeclInj(i)
                                 \cup RefinedInj(v.ty)
                                 \cup TakeN(MarkNested(v, <<"m2">>), 2) \cup TakeN(Weak1(v, TRUE), 2)}
Injected(a) == UNION {Inject(a, i) : i \in 1..Len(a)}
InjBase == IF Cardinality(BaseLists) <= 25 THEN BaseLists ELSE RandomSubset(25, BaseLists)

TW(Ws) == {w \in Ws : TypedUnknowns(w)}
WeakOf(a) == UNION {{[a EXCEPT ![i] = w] : w \in (IF Thorough THEN TW(Weak1(a[i], FALSE)) ELSE TakeN(TW(Weak1(a[i], FALSE)), 6) \cup TakeN(TW(Weak1(a[i], TRUE)), 4))} : i \in 1..Len(a)}
             \cup (IF Len(a) >= 2 THEN {[a EXCEPT ![1] = w1, ![2] = w2] : w1 \in TakeN(Weak1(a[1], TRUE), 2), w2 \in TakeN(Weak1(a[2], TRUE), 2)} ELSE {})
MarkOf(a) == UNION {{[a EXCEPT ![i] = w] : w \in TakeN(MarkPlacements(a[i]), 5) \ {a[i]}} : i \in 1..Len(a)}
             \* an unknown argument at one position together with a (nested) mark at another
             \cup UNION {UNION {{[a EXCEPT ![i] = Unk(a[i].ty, NoRf), ![j] = m] : m \in TakeN(MarkNested(a[j], <<"m2">>), 2) \cup {WithMk(a[j], <<"m1">>)}}
                                : j \in (1..Len(a)) \ {i}} : i \in 1..Len(a)}
             \cup (IF Len(a) >= 2 THEN {[a EXCEPT ![1] = WithMk(a[1], <<"m1">>), ![2] = WithMk(a[2], <<"m2">>)]} ELSE {})
WBase == IF Cardinality(BaseLists) <= (IF Thorough THEN 200 ELSE 60) THEN BaseLists ELSE RandomSubset(IF Thorough THEN 200 ELSE 60, BaseLists)
Line(a) ==
  CASE Mode \in {"call", "ref"} -> [k |-> "call", api |-> Api, xs |-> <<[none |-> TRUE]>>, a |-> a, vs |-> <<>>]
    [] Mode = "weak" -> [k |-> "weak", api |-> Api, xs |-> <<[none |-> TRUE]>>, a |-> a, vs |-> SetToSeq(WeakOf(a))]
    [] Mode = "mark" -> [k |-> "mark", api |-> Api, xs |-> <<[none |-> TRUE]>>, a |-> a, vs |-> SetToSeq(MarkOf(a) \cup UNION {MarkOf(w) : w \in TakeN(WeakOf(a), 2)})]
NestedUnk(a) == UNION {{[a EXCEPT ![i] = w] : w \in TakeN(Weak1(a[i], TRUE) \ UnkMenuLite(a[i]), 3)} : i \in 1..Len(a)}
\* argument lists worth trying whatever the random thinning picks
Inf == K(TNum, PInf)
MInf == K(TNum, NInf)
Extra == CASE F.name = "range" -> {<<Inf, MInf, MInf>>, <<MInf, Inf, Inf>>, <<Inf, Inf>>, <<NumV(0), Inf>>, <<MInf>>, <<NumV(0), NumV(4), MInf>>, <<Inf, NumV(0), NumV(-4)>>}
           [] F.name = "format" -> {<<S(<<"%", "[", "1", "8", "4", "4", "6", "7", "4", "4", "0", "7", "3", "7", "0", "9", "5", "5", "1", "6", "1", "5", "]", "v">>), NumV(4)>>,
                                    <<S(<<"%", "[", "4", "2", "9", "4", "9", "6", "7", "2", "9", "6", "]", "v">>), NumV(4)>>, <<S(<<"%", "9", "9", "9", "9", "9", "9", "9", "9", "9", "9", "9", "9", "9", "9", "9", "9", "9", "9", "9", "9", "d">>), NumV(4)>>}
           [] F.name = "concat" -> {<<SeqV(TList(TStr), <<>>), SeqV(TList(TNum), <<NumV(4)>>)>>, <<SeqV(TList(TNum), <<NumV(4)>>), SeqV(TList(TStr), <<>>)>>,
                                    <<SeqV(TList(TBool), <<>>), SeqV(TList(TStr), <<S(<<"a">>)>>), SeqV(TList(TNum), <<>>)>>, <<SeqV(TList(TStr), <<>>), SeqV(TList(TNum), <<>>)>>,
                                    <<SeqV(TList(TStr), <<S(<<"a">>)>>), SeqV(TList(TNum), <<NumV(4)>>)>>}
           [] F.name = "bytesslice" -> {<<K(TCap("bytes"), [c |-> "ab"]), o, n>> : o \in {NumV(0), NumV(4), NumV(8), NumV(12), K(TNum, [lm |-> "i64max"])}, n \in {NumV(0), NumV(4), NumV(12), K(TNum, [lm |-> "i64max"])}}
           [] F.name = "formatlist" -> {<<S(<<"%", "[", "1", "8", "4", "4", "6", "7", "4", "4", "0", "7", "3", "7", "0", "9", "5", "5", "1", "6", "1", "5", "]", "v">>), NumV(4)>>}
           [] OTHER -> {}
\* argument lists whose members are consumed in step by several iterators (any member weakened, the others must stay aligned)
L2(x, y) == SeqV(TList(TStr), <<S(<<x>>), S(<<y>>)>>)
ExtraW == CASE F.name = "formatlist" -> {<<S(<<"%", "s", " ", "%", "s">>), L2("a", "b"), L2("c", "a")>>, <<S(<<"%", "s", "%", "s", "%", "s">>), L2("a", "b"), S(<<"c">>), L2("b", "c")>>,
                                          <<S(<<"%", "s", "-", "%", "s">>), SeqV(TList(TStr), <<S(<<"a">>), S(<<"b">>), S(<<"c">>)>>), SeqV(TList(TStr), <<S(<<"c">>), S(<<"b">>), S(<<"a">>)>>)>>}
            [] F.name = "zipmap" -> {<<L2("a", "b"), L2("c", "a")>>}
            [] F.name = "setproduct" -> {<<L2("a", "b"), L2("c", "a")>>}
            [] F.name = "concat" -> {<<L2("a", "b"), L2("c", "a")>>}
            [] OTHER -> {}
Src == IF Mode = "ref" THEN BaseLists ELSE IF Mode = "call" THEN Extra \cup BaseLists \cup UNION {Injected(a) : a \in InjBase} \cup UNION {NestedUnk(a) : a \in BaseLists} ELSE WBase \cup ExtraW
\* RandomSubset makes Src differ between evaluations: evaluate it exactly once
ASSUME LET sq == SetToSeq(Src) IN
       LET out == [i \in 1..Len(sq) |-> Line(sq[i])] IN
       ndJsonSerialize(IOEnv.VOUT, out) /\ PrintT(<<"GEN", Len(sq)>>)
VARIABLE x
Init == x = 0
Next == UNCHANGED x
=============================================================================
