------------------------------- MODULE JsonGen ------------------------------
EXTENDS JsonDoc, Json
ShardI == EnvInt("VSHARDI", 0)
ShardN == EnvInt("VSHARDN", 1)
RECURSIVE DynAtJ(_)
DynAtJ(t) == {TDyn} \cup
  CASE t.k \in CollKinds -> {[t EXCEPT !.e = x] : x \in DynAtJ(t.e)}
    [] t.k = "tuple" -> UNION {{[t EXCEPT !.es[i] = x] : x \in DynAtJ(t.es[i])} : i \in 1..Len(t.es)}
    [] t.k = "object" -> UNION {{[t EXCEPT !.as[n] = x] : x \in DynAtJ(t.as[n])} : n \in DOMAIN t.as}
    [] OTHER -> {}
RECURSIVE AllDyn(_)
AllDyn(t) == {t} \cup DynAtJ(t) \cup (IF t.k \in CollKinds THEN {[t EXCEPT !.e = x] : x \in AllDyn(t.e)} ELSE {})
JT == IF Thorough THEN VT ELSE PrimTypes \cup VT1 \cup TakeN(VT2, 8)
FinVals(t) == {v \in AllVals(t) : Ranked(v) /\ \A n \in AllNums(v) : ~IsInfN(n)}
NumExtra == {K(TNum, [lm |-> x]) : x \in {"i64max", "i64maxp", "u64max", "e30", "tenth", "f64intp"}} \cup {K(TNum, [dec |-> "12345678901234567890123"]), NumV(-10)}
ValsJ(t) == TakeN(FinVals(t), IF Thorough THEN 40 ELSE 14) \cup (IF t.k = "number" THEN NumExtra ELSE {})
TS == SetToSeq(JT)
Mine == SetToSeq({i \in 1..Len(TS) : i % ShardN = ShardI})
MLine(t) == [k |-> "jm", vals |-> SetToSeq(ValsJ(t)), tys |-> SetToSeq(AllDyn(t))]
\* values JSON cannot represent: unknown, marked, infinite (at top level or nested)
Bad(t) == TakeN(UnkVals(t), 2) \cup {WithMk(v, <<"m1">>) : v \in TakeN(Vals(t, W), 2)}
          \cup UNION {TakeN(Weak1(v, TRUE) \ UnkMenuLite(v), 2) \cup TakeN(MarkNested(v, <<"m2">>), 2) : v \in TakeN(Vals(t, W), 3)}
          \cup (IF t.k = "number" THEN {K(TNum, PInf), K(TNum, NInf)} ELSE {})
XLine(t) == [k |-> "jx", vals |-> SetToSeq(Bad(t)), tys |-> <<t, TDyn>>]
\* documents from a grammar (depth <= 2, <= 2 members, duplicate keys, nested nulls)
Leaf == {JNull, JBool(TRUE), JNum(Qn(4)), JNum(Qn(2)), JNum(Qn(-12)), JNum([lm |-> "u64max"]), JStr(<<>>), JStr(<<"a">>), JStr(<<"e", "acute">>)}
D1 == Leaf \cup {JArr(s) : s \in SeqsUpTo(TakeN(Leaf, 5), 2)}
        \cup {JObj(<<>>)} \cup {JObj(<<Pair(<<k>>, v)>>) : k \in {"a", "b"}, v \in TakeN(Leaf, 5)}
        \cup {JObj(<<Pair(<<k1>>, v1), Pair(<<k2>>, v2)>>) : k1 \in {"a", "b"}, k2 \in {"a", "b"}, v1 \in TakeN(Leaf, 3), v2 \in TakeN(Leaf, 3)}
\* duplicate property names whose values are structures (arrays, objects) of equal and of different shapes
DDup == {JObj(<<Pair(<<"a">>, v), Pair(<<"a">>, w)>>) : v \in {JObj(<<>>), JArr(<<>>), JObj(<<Pair(<<"b">>, JNum(Qn(4)))>>), JArr(<<JNum(Qn(4))>>)},
                                                        w \in {JObj(<<>>), JArr(<<>>), JObj(<<Pair(<<"b">>, JStr(<<"a">>))>>), JArr(<<JNum(Qn(2))>>), JNull}}
        \cup {JArr(<<JObj(<<Pair(<<"a">>, JArr(<<JBool(TRUE)>>)), Pair(<<"b">>, JNull), Pair(<<"a">>, JArr(<<JBool(TRUE)>>))>>)>>)}
D2 == D1 \cup DDup \cup {JArr(<<x, y>>) : x \in TakeN(D1, 12), y \in TakeN(D1, 6)} \cup {JObj(<<Pair(<<"a">>, x), Pair(<<"b">>, y)>>) : x \in TakeN(D1 \ Leaf, 10), y \in TakeN(D1, 5)}
           \cup {JObj(<<Pair(<<"b">>, x), Pair(<<"a">>, JNull)>>) : x \in TakeN(D1 \ Leaf, 14)}
\* values whose own type still mentions the placeholder (untyped nulls, empty collections of dynamic), inside structures
DynOwn == {SeqV(TTup(<<TDyn, TNum>>), <<Null(TDyn), NumV(4)>>), MapV(TObj([a |-> TDyn, b |-> TStr]), [a |-> Null(TDyn), b |-> StrV(<<"a">>)]), SeqV(TList(TDyn), <<>>),
           SeqV(TTup(<<TTup(<<TDyn>>)>>), <<SeqV(TTup(<<TDyn>>), <<Null(TDyn)>>)>>), SeqV(TTup(<<TList(TDyn), TStr>>), <<SeqV(TList(TDyn), <<>>), StrV(<<"a">>)>>), Null(TDyn),
           MapV(TObj([a |-> TMap(TDyn)]), [a |-> MapV(TMap(TDyn), <<>>)])}
DynOwnLines == {[k |-> "jm", vals |-> <<v>>, tys |-> <<TDyn, v.ty>>] : v \in DynOwn}
\* values of DIFFERENT types that read alike ("list of object", "map of tuple", ...) marshalled one after the other by one process
\* at placeholder positions, alone and side by side in one document: each type descriptor must be the value's own
OA == TObj([a |-> TNum])   OB == TObj([b |-> TStr])   OC == TObj([a |-> TStr])
T1 == TTup(<<TNum>>)       T2 == TTup(<<TStr, TNum>>)
oa == MapV(OA, [a |-> NumV(4)])   ob == MapV(OB, [b |-> StrV(<<"a">>)])   oc == MapV(OC, [a |-> StrV(<<"b">>)])
t1 == SeqV(T1, <<NumV(8)>>)       t2 == SeqV(T2, <<StrV(<<"a">>), NumV(0)>>)
Alike == <<SeqV(TList(OA), <<oa>>), SeqV(TList(OB), <<ob>>), SeqV(TList(OC), <<oc>>), SeqV(TList(OA), <<oa, oa>>),
           SeqV(TSet(OA), <<oa>>), SeqV(TSet(OB), <<ob>>), MapV(TMap(T1), [a |-> t1]), MapV(TMap(T2), [a |-> t2]), MapV(TMap(OC), [b |-> oc]), MapV(TMap(OA), [b |-> oa]),
           SeqV(TList(T2), <<t2>>), SeqV(TList(T1), <<t1, t1>>), SeqV(TList(TList(OB)), <<SeqV(TList(OB), <<ob>>)>>), SeqV(TList(TList(OA)), <<SeqV(TList(OA), <<oa>>)>>)>>
Side(v, w) == SeqV(TTup(<<v.ty, w.ty>>), <<v, w>>)
AlikeLines == {[k |-> "jm", vals |-> Alike \o <<Alike[1]>>, tys |-> <<TDyn>>]}
              \cup {[k |-> "jm", vals |-> <<Side(Alike[i], Alike[j])>>, tys |-> <<TTup(<<TDyn, TDyn>>), TDyn, TTup(<<TDyn, Alike[j].ty>>)>>] : i \in 1..Len(Alike), j \in 1..Len(Alike)}
DLine == [k |-> "jd", docs |-> SetToSeq(IF Thorough THEN D2 ELSE TakeN(D2, 600) \cup DDup)]
ASSUME LET out == [j \in 1..Len(Mine) |-> MLine(TS[Mine[j]])] \o [j \in 1..Len(Mine) |-> XLine(TS[Mine[j]])] \o (IF ShardI = 0 THEN <<DLine>> \o SetToSeq(DynOwnLines) \o SetToSeq(AlikeLines) ELSE <<>>) IN
       ndJsonSerialize(IOEnv.VOUT, out) /\ PrintT(<<"GEN", Len(out)>>)
VARIABLE x
Init == x = 0
Next == UNCHANGED x
=============================================================================
