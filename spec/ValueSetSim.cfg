SPECIFICATION SSpec
INVARIANTS Emit
CHECK_DEADLOCK FALSE
