INIT Init
NEXT Next
