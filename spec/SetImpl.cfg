SPECIFICATION ISpec
INVARIANTS EmitBroken
VIEW IView
CHECK_DEADLOCK FALSE
