------------------------------- MODULE Session ------------------------------
(***************************************************************************)
(* A session: a growing store of live values and a history of API steps.   *)
(* Steps derive new values, call accessors and then MUTATE the Go data     *)
(* they returned, re-use Go slices / maps / value sets / builders after    *)
(* handing them to a constructor, and so on.  The contract is the action   *)
(* property Immutable: no step changes what any existing value reports.    *)
(* The specification cannot (and need not) predict the new values; it      *)
(* takes them from the recorded step and constrains only the old ones.     *)
(*                                                                 [C20]   *)
(***************************************************************************)
EXTENDS Values, Json
\* the initial store (abstract values; index = store id)
S0 == << NumV(4), StrV(<<"a", "b">>), BoolV(TRUE),
         SeqV(TList(TNum), <<NumV(0), NumV(4)>>), SeqV(TSet(TStr), <<StrV(<<"a">>), StrV(<<"b">>)>>),
         MapV(TMap(TNum), [a |-> NumV(0), b |-> NumV(8)]), MapV(TObj([a |-> TNum, b |-> TStr]), [a |-> NumV(4), b |-> StrV(<<"a">>)]),
         SeqV(TTup(<<TNum, TStr>>), <<NumV(8), StrV(<<>>)>>),
         WithMk(SeqV(TList(TStr), <<StrV(<<"a">>), WithMk(StrV(<<"b">>), <<"m2">>)>>), <<"m1">>),
         Unk(TNum, [null |-> "U", lo |-> Qn(0), loInc |-> TRUE]), Unk(TList(TStr), [null |-> "U", maxLen |-> 3]), Unk(TStr, [null |-> "U", prefix |-> <<"a">>]),
         SeqV(TSet(TNum), <<Unk(TNum, NoRf), Unk(TNum, [null |-> "F"]), Unk(TNum, [null |-> "F", lo |-> Qn(0), loInc |-> TRUE])>>),
         SeqV(TList(TList(TNum)), <<SeqV(TList(TNum), <<NumV(0)>>)>>) >>
N0 == Len(S0)
Kinds == {"AsBigFloat.mutate", "Marks.mutate", "Unmark.mutate", "UnmarkDeep.mutate", "UnmarkDeepWithPaths.mutate", "AsValueSlice.mutate",
          "AsValueMap.mutate", "AsValueSet.mutate", "ListVal.reuse", "TupleVal.reuse", "SetVal.reuse", "MapVal.reuse", "ObjectVal.reuse",
          "SetValFromValueSet.reuse", "ValueSet.copy.mutate", "Refine.reuse", "Refine.twice", "op.Equals", "op.Add", "op.Index0", "op.GetAttrA", "op.Length",
          "op.Negate", "Mark", "WithMarks.mutate", "ElementIterator", "GoString", "Hash", "Range", "Convert.list", "Transform.identity", "Walk.pathmutate"}
\* a step names a kind and two store positions; position 0 means "the most recently added value"
Steps == [k : Kinds, i : 0..N0, j : 0..N0]
VARIABLES store, shist
sessvars == <<store, shist>>
SDepth == EnvInt("VDEPTH", 4)
SessInit == store = S0 /\ shist = <<>>
\* the model's own transition is only bookkeeping: the history grows; new values are unknown to the model
\* applicability of a step to an initial store entry (position 0 = latest value: type not tracked by the model)
Applicable(k, i) ==
  IF i = 0 THEN TRUE ELSE
  LET v == S0[i] t == S0[i].ty.k IN
  CASE k \in {"AsBigFloat.mutate", "op.Negate", "op.Add"} -> t = "number" /\ v.st = "k"
    [] k = "AsValueSlice.mutate" -> t \in {"list", "tuple", "set"} /\ v.st = "k"
    [] k = "AsValueMap.mutate" -> t \in {"map", "object"} /\ v.st = "k"
    [] k \in {"AsValueSet.mutate", "ValueSet.copy.mutate"} -> t = "set" /\ v.st = "k"
    [] k \in {"Refine.reuse", "Refine.twice"} -> v.st = "unk"
    [] k = "op.Index0" -> t \in {"list", "tuple"}
    [] k = "op.GetAttrA" -> t = "object"
    [] k = "op.Length" -> t \in {"list", "set", "map", "tuple"}
    [] k = "ElementIterator" -> t \in {"list", "set", "map", "tuple", "object"} /\ v.st = "k"
    [] OTHER -> TRUE
SessNext == \E s \in Steps : Applicable(s.k, s.i) /\ Len(shist) < SDepth /\ shist' = Append(shist, s) /\ UNCHANGED store
SessSpec == SessInit /\ [][SessNext]_sessvars
SessEmit == (Len(shist) = SDepth) => PrintT(ToJson([init |-> S0, steps |-> shist]))

\* ---- contract over a recorded step: e.snap is the projection of EVERY live value after the step
StepFailed(old, e) ==
  (IF Len(e.snap) >= Len(old) /\ \A k \in 1..Len(old) : e.snap[k] = old[k] THEN {} ELSE {"C20.Immutable"})
  \cup (IF \A k \in (Len(old) + 1)..Len(e.snap) : WellFormed(e.snap[k]) THEN {} ELSE {"C06.WellFormed"})
  \cup (IF Has(e, "harnesspanic") THEN {"C20.StepPanicked"} ELSE {})
=============================================================================
