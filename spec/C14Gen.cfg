INIT Init
NEXT Next
