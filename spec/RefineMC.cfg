SPECIFICATION RSpec
INVARIANTS TypeOK Faithful RejectedIsEmpty
PROPERTIES Narrowing
CHECK_DEADLOCK FALSE
