----------------------------- MODULE GoBridgeGen -----------------------------
EXTENDS GoBridge, Json
\* numbers: every boundary of every integer width, +-1, +1/2, fractions, huge, infinite
TestNums == {Qn(q) : q \in {0, 4, -4, 2, -2, 508, 510, 512, -512, -514, -516, 1020, 1022, 1024}}
            \cup {LM(x) : x \in {"i16max", "i16maxp", "i16min", "i16minm", "u16max", "u16maxp", "i32max", "i32maxp", "i32min", "i32minm", "u32max", "u32maxh", "u32maxp",
                               "f64int", "f64intp", "i64max", "i64maxp", "i64min", "i64minm", "u64max", "u64maxp", "e30", "f32max", "f32maxp", "mf32max", "mf32maxp",
                               "e300", "f64max", "f64maxp", "mf64max", "mf64maxp", "tenth", "third"}}
            \cup {PInf, NInf}
NumLines == {[k |-> "gnum", n |-> n, kinds |-> SetToSeq(NumKinds)] : n \in TestNums}
\* abstract Go values of the family
GNum(k, n) == [t |-> GPrim(k), n |-> n]
GStrV(s) == [t |-> GPrim("string"), s |-> s]
GBoolV(b) == [t |-> GPrim("bool"), b |-> b]
PrimGo == {GNum("int", Qn(0)), GNum("int", Qn(-12)), GNum("int8", Qn(508)), GNum("int8", Qn(-512)), GNum("int16", LM("i16max")), GNum("int16", LM("i16min")),
           GNum("int32", LM("i32max")), GNum("int32", LM("i32min")), GNum("int64", LM("i64max")), GNum("int64", LM("i64min")),
           GNum("uint", LM("u64max")), GNum("uint8", Qn(1020)), GNum("uint16", LM("u16max")), GNum("uint32", LM("u32max")), GNum("uint64", LM("u64max")), GNum("uint64", LM("i64maxp")),
           GNum("float32", Qn(2)), GNum("float32", LM("f32max")), GNum("float32", PInf), GNum("float64", Qn(-10)), GNum("float64", LM("f64max")), GNum("float64", NInf), GNum("float64", LM("f64int")),
           \* arbitrary-precision Go numbers: whole numbers needing 65, 100 and about 1000 bits, fractions held at 512 bits
           GNum("bigint", Qn(-12)), GNum("bigint", LM("u64maxpp")), GNum("bigint", LM("e30")), GNum("bigint", LM("e300")), GNum("bigint", LM("i64minm")),
           GNum("bigfloat", Qn(2)), GNum("bigfloat", LM("tenth")), GNum("bigfloat", LM("third")), GNum("bigfloat", LM("e30")), GNum("bigfloat", LM("almost1")),
           GStrV(<<>>), GStrV(<<"a", "b">>), GStrV(<<"e", "acute">>), GBoolV(TRUE), GBoolV(FALSE)}
SliceOf(e, vs, isnil) == [t |-> GSlice(e), nil |-> isnil, vs |-> vs]
MapOf(e, m, isnil) == [t |-> GMap(e), nil |-> isnil, m |-> m]
PtrTo(e, v, isnil) == [t |-> GPtr(e), nil |-> isnil, v |-> v]
ByT(e) == {x \in PrimGo : x.t = e}
ElemKinds == {GPrim("int"), GPrim("uint64"), GPrim("string"), GPrim("float64"), GPrim("bool"), GPrim("bigint")}
Comp1 == UNION {{SliceOf(e, <<>>, TRUE), SliceOf(e, <<>>, FALSE)} \cup {SliceOf(e, s, FALSE) : s \in SeqsUpTo(TakeN(ByT(e), 2), 2) \ {<<>>}} : e \in ElemKinds}
      \cup UNION {{MapOf(e, <<>>, TRUE), MapOf(e, <<>>, FALSE)} \cup {MapOf(e, m, FALSE) : m \in RecsOver({"a", "b"}, TakeN(ByT(e), 2)) \ {<<>>}} : e \in {GPrim("int"), GPrim("string")}}
      \cup UNION {{PtrTo(e, CHOOSE x \in ByT(e) : TRUE, TRUE)} \cup {PtrTo(e, x, FALSE) : x \in TakeN(ByT(e), 2)} : e \in {GPrim("int"), GPrim("string"), GPrim("bool")}}
PtrStr(s, isnil) == PtrTo(GPrim("string"), GStrV(s), isnil)
Structs == {[t |-> GStruct, a |-> GNum("int", n), b |-> p] : n \in {Qn(0), Qn(28)}, p \in {PtrStr(<<"a">>, FALSE), PtrStr(<<>>, TRUE), PtrStr(<<"b">>, FALSE)}}
Comp2 == {SliceOf(x.t, <<x, y>>, FALSE) : x \in TakeN(Comp1, 6), y \in TakeN(Comp1, 12)} \cup {SliceOf(GStruct, s, FALSE) : s \in SeqsUpTo(TakeN(Structs, 3), 2)}
         \cup {MapOf(GPtr(GPrim("int")), [a |-> PtrTo(GPrim("int"), GNum("int", Qn(4)), FALSE), b |-> PtrTo(GPrim("int"), GNum("int", Qn(8)), FALSE)], FALSE),
               MapOf(GPtr(GPrim("string")), [a |-> PtrStr(<<"a">>, FALSE), b |-> PtrStr(<<"b">>, FALSE)], FALSE),
               MapOf(GPtr(GPrim("string")), [a |-> PtrStr(<<"a">>, FALSE), b |-> PtrStr(<<>>, TRUE)], FALSE),
               MapOf(GStruct, [a |-> CHOOSE s \in Structs : TRUE], FALSE)}
         \cup {[t |-> GCty, v |-> v] : v \in {NumV(4), Unk(TStr, NoRf), Null(TBool), SeqV(TList(TNum), <<NumV(0)>>)}}
Comp2Typed == {x \in Comp2 : x.t.g # "slice" \/ x.vs = <<>> \/ \A i \in 1..Len(x.vs) : x.vs[i].t = x.t.e}
Recs == {[t |-> GRec1, a |-> GNum("int", Qn(28))], [t |-> GRec2, a |-> GStrV(<<"a", "b">>), c |-> GBoolV(TRUE)], [t |-> GRec1, a |-> GNum("int", Qn(0))], [t |-> GRec2, a |-> GStrV(<<>>), c |-> GBoolV(FALSE)]}
\* ct: the cty type to convert to (the reference implied type; for Go types holding big numbers there is no implied type and the
\* caller names the type, as the property says)
RtLines == {[k |-> "grt", gv |-> x, ct |-> ImpliedTypeRef(x.t)] : x \in PrimGo \cup Comp1 \cup Structs \cup Comp2Typed \cup Recs \cup {SliceOf(GRec2, <<r>>, FALSE) : r \in {x \in Recs : x.t = GRec2}}}
\* cty values x target Go types
Targets == {GPrim(k) : k \in {"int", "int8", "uint16", "float32", "float64", "string", "bool"}} \cup {GSlice(GPrim("int")), GSlice(GPrim("string")), GMap(GPrim("int")), GMap(GPrim("string")),
            GPtr(GPrim("int")), GPtr(GPrim("string")), GPtr(GSlice(GPrim("int"))), GStruct, GRec1, GRec2, GCty, GSlice(GCty), GSlice(GStruct), GMap(GPtr(GPrim("string")))}
IntoVals == UNION {TakeN(AllVals(t), 8) \cup TakeN(UnkVals(t), 2) \cup {WithMk(v, <<"m1">>) : v \in TakeN(Vals(t, W), 1)} \cup UNION {TakeN(Weak1(v, TRUE), 2) : v \in TakeN(Vals(t, W), 2)}
                   : t \in PrimTypes \cup VT1 \cup TakeN(VT2, 5)} \cup {DynVal, Null(TDyn)}
\* objects with and without the attribute of a nilable struct field, longer and shorter lists, decoded one after the other into the same kinds of target
OFull == MapV(TObj([a |-> TNum, b |-> TStr]), [a |-> NumV(4), b |-> StrV(<<"a">>)])
OPart == MapV(TObj([a |-> TNum]), [a |-> NumV(8)])
\* objects holding an attribute that no field of the target struct accepts (next to fields the object leaves out)
OExtra == {MapV(TObj([a |-> TNum, c |-> TStr]), [a |-> NumV(4), c |-> StrV(<<"a">>)]), MapV(TObj([a |-> TNum, b |-> TStr, c |-> TBool]), [a |-> NumV(4), b |-> StrV(<<"a">>), c |-> BoolV(TRUE)]),
           MapV(TObj([b |-> TStr]), [b |-> StrV(<<"a">>)]), MapV(TObj([a |-> TStr, b |-> TStr]), [a |-> StrV(<<"a">>), b |-> StrV(<<"b">>)]), MapV(TObj([c |-> TBool]), [c |-> BoolV(TRUE)])}
OExtraVals == OExtra \cup {SeqV(TList(o.ty), <<o>>) : o \in OExtra} \cup {MapV(TMap(o.ty), [a |-> o]) : o \in TakeN(OExtra, 2)}
ReuseSeq == <<OFull, OPart, SeqV(TList(OFull.ty), <<OFull, OFull>>), SeqV(TList(OPart.ty), <<OPart>>), SeqV(TList(TNum), <<NumV(4), NumV(8), NumV(0)>>), SeqV(TList(TNum), <<NumV(8)>>),
              SeqV(TSet(TStr), <<StrV(<<"a">>), StrV(<<"b">>)>>), SeqV(TSet(TStr), <<StrV(<<"a", "b">>)>>), MapV(TMap(TStr), [a |-> StrV(<<"a">>), b |-> StrV(<<"b">>)]), MapV(TMap(TStr), [b |-> Null(TStr)]),
              SeqV(TList(TList(TNum)), <<SeqV(TList(TNum), <<NumV(4), NumV(8)>>)>>), SeqV(TList(TList(TNum)), <<SeqV(TList(TNum), <<NumV(0)>>)>>)>>
IntoLines == {[k |-> "ginto", vals |-> SetToSeq(IntoVals), gts |-> SetToSeq(Targets)],
              [k |-> "ginto", vals |-> SetToSeq(OExtraVals), gts |-> <<GStruct, GRec1, GRec2, GSlice(GStruct), GSlice(GRec2), GPtr(GStruct), GMap(GStruct)>>],
              [k |-> "ginto", vals |-> ReuseSeq \o ReuseSeq, gts |-> <<GStruct, GSlice(GStruct), GSlice(GPrim("int")), GSlice(GPrim("string")), GMap(GPtr(GPrim("string"))), GSlice(GSlice(GPrim("int"))), GMap(GPrim("string"))>>]}
ASSUME LET sq == SetToSeq(NumLines \cup RtLines) \o SetToSeq(IntoLines) IN ndJsonSerialize(IOEnv.VOUT, sq) /\ PrintT(<<"GEN", Len(sq)>>)
VARIABLE x
Init == x = 0
Next == UNCHANGED x
=============================================================================
