-------------------------------- MODULE Ops ---------------------------------
(***************************************************************************)
(* The operation methods of cty.Value:                                     *)
(*   - reference semantics on wholly known operands (OpsRef)       [C02]   *)
(*   - contract rules relating a concrete and a weakened run       [C01]   *)
(*   - contract rules relating a marked and an unmarked run        [C04]   *)
(*   - the operand universes TLC enumerates for the real code              *)
(***************************************************************************)
EXTENDS Values

NumBinArith == {"Add", "Subtract", "Multiply", "Divide", "Modulo"}
NumCmp      == {"LessThan", "GreaterThan", "LessThanOrEqualTo", "GreaterThanOrEqualTo"}
NumBin      == NumBinArith \cup NumCmp
NumUn       == {"Negate", "Absolute"}
BoolBin     == {"And", "Or"}
BoolUn      == {"Not"}
EqOps       == {"Equals", "NotEqual"}
StructOps   == {"Index", "HasIndex", "GetAttr", "HasElement", "Length"}
AllOps      == NumBin \cup NumUn \cup BoolBin \cup BoolUn \cup EqOps \cup StructOps
NeverNullOps == NumBin \cup NumUn \cup BoolBin \cup BoolUn \cup EqOps \cup {"Length", "HasElement"}

RECURSIVE JoinStr(_)
JoinStr(s) == IF s = <<>> THEN "" ELSE s[1] \o JoinStr(Tail(s))

(***************************************************************************)
(* Reference semantics.  Ref(op, a, x) for wholly known operand tuples a   *)
(* is one of  [ok |-> TRUE, val |-> V]   the documented result             *)
(*            [ok |-> FALSE]             the call must be rejected         *)
(*            [undef |-> TRUE]           outside the reference's domain    *)
(* Numbers are exact rationals [n, d]; results are compared numerically.   *)
(***************************************************************************)
OKV(v)  == [ok |-> TRUE, val |-> v]
REJ     == [ok |-> FALSE]
UNDEF   == [undef |-> TRUE]
Rat(n, d) == IF d < 0 THEN [n |-> -n, d |-> -d] ELSE [n |-> n, d |-> d]
NumK(n) == K(TNum, n)
AbsI(i) == IF i < 0 THEN -i ELSE i
SgnI(i) == IF i < 0 THEN -1 ELSE IF i > 0 THEN 1 ELSE 0
TruncDiv(a, b) == SgnI(a) * SgnI(b) * (AbsI(a) \div AbsI(b))

IsNumK(v)  == v.st = "k" /\ v.ty.k = "number"
IsBoolK(v) == v.st = "k" /\ v.ty.k = "bool"
IsStrK(v)  == v.st = "k" /\ v.ty.k = "string"
FinSmall(n) == IsSmallN(n)

\* whole landmarks that are neighbours: LmNext[n] = n + 1 (exact facts about the named constants)
LmNext == [i16max |-> "i16maxp", u16max |-> "u16maxp", i32max |-> "i32maxp", u32max |-> "u32maxp", f64int |-> "f64intp",
           i64max |-> "i64maxp", u64max |-> "u64maxp", u64maxp |-> "u64maxpp", i16minm |-> "i16min", i32minm |-> "i32min", i64minm |-> "i64min"]
LmStep(n, k) ==     \* the landmark n + k for k = 1 / -1, if it is a named landmark
  IF k = 1 /\ n.lm \in DOMAIN LmNext THEN OKV(NumK([lm |-> LmNext[n.lm]]))
  ELSE IF k = -1 /\ (\E m \in DOMAIN LmNext : LmNext[m] = n.lm) THEN OKV(NumK([lm |-> CHOOSE m \in DOMAIN LmNext : LmNext[m] = n.lm]))
  ELSE UNDEF
\* mantissa bits needed to hold a whole landmark exactly
LmBits == [i16max |-> 15, i16maxp |-> 1, u16max |-> 16, u16maxp |-> 1, i32max |-> 31, i32maxp |-> 1, u32max |-> 32, u32maxp |-> 1, f64int |-> 1, f64intp |-> 54,
           i64max |-> 63, i64maxp |-> 1, u64max |-> 64, u64maxp |-> 1, u64maxpp |-> 65, i16minm |-> 16, i16min |-> 1, i32minm |-> 32, i32min |-> 1, i64minm |-> 64, i64min |-> 1,
           f32max |-> 24, mf32max |-> 24, f32maxp |-> 1, mf32maxp |-> 1, f64max |-> 53, mf64max |-> 53, f64maxp |-> 1, mf64maxp |-> 1]
NeedBits(v) == IF v.st = "k" /\ v.ty.k = "number" /\ Has(v.v, "lm") /\ v.v.lm \in DOMAIN LmBits THEN LmBits[v.v.lm] ELSE 24
IsUnit(n) == Has(n, "q") /\ n.q \in {4, -4}
BigLm(n) == Has(n, "lm") /\ ~IsSmallN(n)
\* exact facts about named constants: negation (2^15 / -2^15, ...) and doubling (2^15 * 2 = 2^16, ...)
LmNegT == [i16maxp |-> "i16min", i32maxp |-> "i32min", i64maxp |-> "i64min", f32max |-> "mf32max", f32maxp |-> "mf32maxp",
           f64max |-> "mf64max", f64maxp |-> "mf64maxp"]
LmDblT == [i16maxp |-> "u16maxp", i32maxp |-> "u32maxp", i64maxp |-> "u64maxp"]
Inv(T, v) == CHOOSE m \in DOMAIN T : T[m] = v
LmNegOf(n) == IF n.lm \in DOMAIN LmNegT THEN OKV(NumK([lm |-> LmNegT[n.lm]]))
              ELSE IF \E m \in DOMAIN LmNegT : LmNegT[m] = n.lm THEN OKV(NumK([lm |-> Inv(LmNegT, n.lm)]))
              ELSE UNDEF
LmAbsOf(n) == IF Landmarks[n.lm].r > 0 THEN OKV(NumK(n)) ELSE LmNegOf(n)
\* a big landmark x scaled by a small whole factor k in {-1, 0, 1, 2} (multiplication) ...
LmTimes(x, k) ==
  CASE k = 4 -> OKV(NumK(x))
    [] k = -4 -> LmNegOf(x)
    [] k = 0 -> OKV(NumK(Qn(0)))
    [] k = 8 -> IF x.lm \in DOMAIN LmDblT THEN OKV(NumK([lm |-> LmDblT[x.lm]])) ELSE UNDEF
    [] OTHER -> UNDEF
\* ... and divided by k in {-1, 1, 2}
LmOver(x, k) ==
  CASE k = 4 -> OKV(NumK(x))
    [] k = -4 -> LmNegOf(x)
    [] k = 8 -> IF \E m \in DOMAIN LmDblT : LmDblT[m] = x.lm THEN OKV(NumK([lm |-> Inv(LmDblT, x.lm)])) ELSE UNDEF
    [] OTHER -> UNDEF
LmFactors == {Qn(4), Qn(-4), Qn(0), Qn(8)}
\* whole numbers around and beyond the machine widths (each is held at several mantissa precisions by the harness)
CmpLms == {"i64max", "i64maxp", "u64max", "u64maxp", "u64maxpp", "e30", "f32maxp", "f64max", "f64int", "f64intp", "i64min", "i64minm", "mf32maxp"}
LmPairs == {<<NumK([lm |-> x]), NumK([lm |-> y])>> : x \in CmpLms, y \in CmpLms} \cup {<<NumK([lm |-> x]), NumV(4)>> : x \in CmpLms} \cup {<<NumV(-4), NumK([lm |-> x])>> : x \in CmpLms}
LmScaled == DOMAIN LmNegT \cup {LmNegT[m] : m \in DOMAIN LmNegT} \cup DOMAIN LmDblT \cup {LmDblT[m] : m \in DOMAIN LmDblT} \cup {"i64max", "u64max", "f64intp", "i64minm"}
RefArith(op, x, y) ==     \* x, y number payloads
  IF ~(HasRank(x) /\ HasRank(y)) THEN UNDEF
  ELSE IF op = "Add" /\ BigLm(x) /\ IsUnit(y) THEN LmStep(x, y.q \div 4)
  ELSE IF op = "Add" /\ BigLm(y) /\ IsUnit(x) THEN LmStep(y, x.q \div 4)
  ELSE IF op = "Subtract" /\ BigLm(x) /\ IsUnit(y) THEN LmStep(x, -(y.q \div 4))
  ELSE IF op = "Subtract" /\ BigLm(x) /\ x = y THEN OKV(NumK(Qn(0)))
  ELSE IF op = "Divide" /\ BigLm(x) /\ x = y THEN OKV(NumK(Qn(4)))
  ELSE IF op = "Multiply" /\ BigLm(x) /\ Has(y, "q") THEN LmTimes(x, y.q)
  ELSE IF op = "Multiply" /\ BigLm(y) /\ Has(x, "q") THEN LmTimes(y, x.q)
  ELSE IF op = "Divide" /\ BigLm(x) /\ Has(y, "q") /\ y.q # 0 THEN LmOver(x, y.q)
  ELSE IF IsInfN(x) \/ IsInfN(y) THEN
    CASE op = "Add" -> IF IsInfN(x) /\ IsInfN(y) THEN (IF x = y THEN OKV(NumK(x)) ELSE UNDEF)
                       ELSE OKV(NumK(IF IsInfN(x) THEN x ELSE y))
      [] op = "Subtract" -> IF IsInfN(x) /\ IsInfN(y) THEN (IF x # y THEN OKV(NumK(x)) ELSE UNDEF)
                            ELSE IF IsInfN(x) THEN OKV(NumK(x)) ELSE OKV(NumK([inf |-> -y.inf]))
      [] op = "Multiply" -> IF SignN(x) = 0 \/ SignN(y) = 0 THEN UNDEF
                            ELSE OKV(NumK([inf |-> SignN(x) * SignN(y)]))
      [] op = "Divide" -> IF IsInfN(x) /\ IsInfN(y) THEN UNDEF
                          ELSE IF IsInfN(y) THEN OKV(NumK(Qn(0)))
                          ELSE IF SignN(y) = 0 THEN UNDEF
                          ELSE OKV(NumK([inf |-> SignN(x) * SignN(y)]))
      [] OTHER -> UNDEF
  ELSE IF ~(FinSmall(x) /\ FinSmall(y)) THEN UNDEF
  ELSE LET a == Nm(x) b == Dn(x) c == Nm(y) d == Dn(y) IN
    CASE op = "Add"      -> OKV(NumK(Rat(a * d + c * b, b * d)))
      [] op = "Subtract" -> OKV(NumK(Rat(a * d - c * b, b * d)))
      [] op = "Multiply" -> OKV(NumK(Rat(a * c, b * d)))
      [] op = "Divide"   -> IF c = 0 THEN (IF a = 0 THEN UNDEF ELSE OKV(NumK([inf |-> SgnI(a)])))
                            ELSE OKV(NumK(Rat(a * d, b * c)))
      [] op = "Modulo"   -> IF c = 0 THEN UNDEF       \* documented only for a non-zero divisor
                            ELSE LET A == a * d  B == c * b IN
                                 OKV(NumK(Rat(A - B * TruncDiv(A, B), b * d)))

RefCmp(op, x, y) ==
  IF ~(HasRank(x) /\ HasRank(y)) THEN UNDEF
  ELSE OKV(BoolV(CASE op = "LessThan" -> NumLT(x, y)
                   [] op = "GreaterThan" -> NumLT(y, x)
                   [] op = "LessThanOrEqualTo" -> NumLE(x, y)
                   [] op = "GreaterThanOrEqualTo" -> NumLE(y, x)))

\* index of a whole, non-negative number payload, or -1
IdxOf(n) == IF Has(n, "q") /\ n.q >= 0 /\ n.q % 4 = 0 THEN n.q \div 4 ELSE -1

RefHasIndex(c, k) ==      \* c known list/tuple/map; k known
  CASE c.ty.k \in {"list", "tuple"} -> IsNumK(k) /\ IdxOf(k.v) >= 0 /\ IdxOf(k.v) < Len(Elems(c))
    [] c.ty.k = "map" -> IsStrK(k) /\ JoinStr(StrOf(k)) \in DOMAIN Attrs(c)

Ref(op, a, x) ==
  CASE op \in NumBinArith ->
         IF IsNumK(a[1]) /\ IsNumK(a[2]) THEN RefArith(op, a[1].v, a[2].v)
         ELSE IF a[1].ty.k = "number" /\ a[2].ty.k = "number" THEN UNDEF ELSE REJ
    [] op \in NumCmp ->
         IF IsNumK(a[1]) /\ IsNumK(a[2]) THEN RefCmp(op, a[1].v, a[2].v)
         ELSE IF a[1].ty.k = "number" /\ a[2].ty.k = "number" THEN UNDEF ELSE REJ
    [] op = "Negate" ->
         IF ~IsNumK(a[1]) THEN (IF a[1].ty.k = "number" THEN UNDEF ELSE REJ)
         ELSE IF IsInfN(a[1].v) THEN OKV(NumK([inf |-> -a[1].v.inf]))
         ELSE IF FinSmall(a[1].v) THEN OKV(NumK(Rat(-Nm(a[1].v), Dn(a[1].v))))
         ELSE IF BigLm(a[1].v) THEN LmNegOf(a[1].v) ELSE UNDEF
    [] op = "Absolute" ->
         IF ~IsNumK(a[1]) THEN (IF a[1].ty.k = "number" THEN UNDEF ELSE REJ)
         ELSE IF IsInfN(a[1].v) THEN OKV(NumK(PInf))
         ELSE IF FinSmall(a[1].v) THEN OKV(NumK(Rat(AbsI(Nm(a[1].v)), Dn(a[1].v))))
         ELSE IF BigLm(a[1].v) THEN LmAbsOf(a[1].v) ELSE UNDEF
    [] op = "Not" -> IF IsBoolK(a[1]) THEN OKV(BoolV(~BoolOf(a[1]))) ELSE IF a[1].ty.k = "bool" THEN UNDEF ELSE REJ
    [] op \in BoolBin ->
         IF IsBoolK(a[1]) /\ IsBoolK(a[2])
         THEN OKV(BoolV(IF op = "And" THEN BoolOf(a[1]) /\ BoolOf(a[2]) ELSE BoolOf(a[1]) \/ BoolOf(a[2])))
         ELSE IF a[1].ty.k = "bool" /\ a[2].ty.k = "bool" THEN UNDEF ELSE REJ
    [] op \in EqOps ->
         LET eq == IF a[1].st = "null" \/ a[2].st = "null" THEN a[1].st = a[2].st
                   ELSE TEquals(a[1].ty, a[2].ty) /\ AbsEq(a[1], a[2])
         IN IF HasDyn(a[1].ty) \/ HasDyn(a[2].ty) THEN UNDEF
            ELSE OKV(BoolV(IF op = "Equals" THEN eq ELSE ~eq))
    [] op = "Length" ->
         IF a[1].ty.k \in {"list", "set", "tuple"} THEN (IF a[1].st = "k" THEN OKV(NumK(Qn(4 * Len(Elems(a[1]))))) ELSE
                                                         IF a[1].ty.k = "tuple" THEN OKV(NumK(Qn(4 * Len(a[1].ty.es)))) ELSE REJ)
         ELSE IF a[1].ty.k = "map" THEN (IF a[1].st = "k" THEN OKV(NumK(Qn(4 * Cardinality(DOMAIN Attrs(a[1]))))) ELSE REJ)
         ELSE IF a[1].ty.k = "object" THEN UNDEF   \* LengthInt deliberately counts attributes; not judged
         ELSE REJ
    [] op = "HasIndex" ->
         IF a[1].ty.k \notin {"list", "tuple", "map"} THEN REJ
         ELSE IF a[1].st # "k" THEN UNDEF
         ELSE IF a[2].st # "k" THEN UNDEF
         ELSE OKV(BoolV(RefHasIndex(a[1], a[2])))
    [] op = "Index" ->
         IF a[1].ty.k \notin {"list", "tuple", "map"} THEN REJ
         ELSE IF a[1].st # "k" THEN REJ
         ELSE IF a[2].st # "k" THEN REJ
         ELSE IF ~RefHasIndex(a[1], a[2]) THEN REJ
         ELSE OKV(IF a[1].ty.k = "map" THEN Attrs(a[1])[JoinStr(StrOf(a[2]))] ELSE Elems(a[1])[IdxOf(a[2].v) + 1])
    [] op = "GetAttr" ->
         IF a[1].ty.k # "object" \/ x.name \notin DOMAIN a[1].ty.as THEN REJ
         ELSE IF a[1].st # "k" THEN UNDEF
         ELSE OKV(Attrs(a[1])[x.name])
    [] op = "HasElement" ->
         IF a[1].ty.k # "set" \/ a[1].st # "k" THEN REJ
         ELSE IF ~TEquals(a[2].ty, a[1].ty.e) THEN OKV(BoolV(FALSE))
         ELSE OKV(BoolV(\E i \in 1..Len(Elems(a[1])) : AbsEq(Elems(a[1])[i], a[2])))

\* observed value matches a reference value (numbers numerically; sets as sets)
Match(o, r) ==
  /\ TEquals(o.ty, r.ty) /\ o.st = r.st
  /\ IF o.st = "k" /\ o.ty.k = "number"
     THEN (IF HasRank(o.v) /\ HasRank(r.v) THEN NumSame(o.v, r.v) ELSE o.v = r.v)
     ELSE AbsEq(o, r)
NumUnranked(o) == o.st = "k" /\ o.ty.k = "number" /\ ~HasRank(o.v)

(***************************************************************************)
(* Contract rules.  Each takes an event and returns the set of rule names  *)
(* that the event violates.  Premises are reported separately.             *)
(***************************************************************************)
AllRanked(s) == \A i \in 1..Len(s) : Ranked(s[i])
ResRanked(r) == r.ok => Ranked(r.val)
AllWhollyKnown(s) == \A i \in 1..Len(s) : WhollyKnown(s[i])
NoMarksIn(s) == \A i \in 1..Len(s) : MarksIn(s[i]) = {}

\* every operand reports the same after the call(s) as before (ia / ia2: digests of the operands' full projections)
InputsChanged(e) == IF Has(e, "ia") /\ e.ia # e.ia2 THEN {"C20.Immutable"} ELSE {}
\* --- C02 / C06 / C20 on a single call with wholly known operands
CallPremise(e) == AllRanked(e.a) \/ Has(e, "mq")     \* (mq: relational laws that need no order in the model)
CallFailed(e) ==
  LET ref == IF e.api \in AllOps /\ AllWhollyKnown(e.a) /\ NoMarksIn(e.a) THEN Ref(e.api, e.a, e.x) ELSE UNDEF IN
  (IF Has(ref, "undef") THEN {}
   ELSE IF ~ref.ok THEN (IF e.r.ok THEN {"C02.RejectsIllTyped"} ELSE {})
   ELSE IF ~e.r.ok THEN {"C02.ResultIsRef"}
   ELSE IF NumUnranked(e.r.val) THEN {}
   ELSE IF Match(e.r.val, ref.val) THEN {} ELSE {"C02.ResultIsRef"})
  \* the same under every physical representation of the operands whose precision can hold the exact result
  \* ("to within the precision of their operands"): rp lists, per representation, the largest operand precision and the outcome
  \cup (IF Has(ref, "undef") \/ ~ref.ok \/ ~Has(e, "rp") THEN {}
        ELSE IF \E i \in 1..Len(e.rp) : e.rp[i].mp >= NeedBits(ref.val) /\ (~e.rp[i].r.ok \/ (~NumUnranked(e.rp[i].r.val) /\ ~Match(e.rp[i].r.val, ref.val)))
             THEN {"C02.ResultIsRefAllReps"} ELSE {})
  \* comparisons and equality do not depend on the precision either operand is held at: every mix of representations gives the reference answer
  \cup (IF Has(ref, "undef") \/ ~ref.ok \/ ~Has(e, "rm") \/ e.api \notin NumCmp \cup EqOps THEN {}
        ELSE IF \E i \in 1..Len(e.rm) : ~e.rm[i].ok \/ ~Match(e.rm[i].val, ref.val) THEN {"C02.ResultIsRefAllReps"} ELSE {})
  \* Modulo is the remainder of truncated division, whatever precisions the operands are held at: zero or of the
  \* dividend's sign, and the dividend itself when that is already smaller than the divisor (relations observed with math/big)
  \cup (IF ~Has(e, "mq") THEN {}
        ELSE IF \E i \in 1..Len(e.mq) : e.mq[i].ok /\ Has(e.mq[i], "sr")
                   \* (rltb, "remainder smaller than the divisor", is logged but not judged: with operands of different precision the
                   \*  library's remainder can exceed the divisor by less than the coarser operand's precision, which C02 allows)
                   /\ (e.mq[i].sr \notin {0, e.mq[i].sa} \/ (e.mq[i].ca = -1 /\ ~e.mq[i].rsa))
             THEN {"C02.ModuloIsRemainder"} ELSE {})
  \* (x.dup: a constructor given two spellings of one key - which entry survives follows Go map order; not judged)
  \cup (IF Len(e.rs) = 1 \/ Has(e.x, "dup") THEN {} ELSE {"C20.Pure"})
  \cup InputsChanged(e)
  \* (arithmetic on whole numbers near 2^53 / 2^63 / 2^64 is exact only "to within the precision of the operands": there the
  \*  result legitimately depends on the mantissa precision of the representation; judged by C02.ResultIsRefAllReps instead)
  \* (opaque decimals: their representations are different numbers by construction)
  \cup (IF Len(e.rr) = 1 \/ Has(e.x, "dup") \/ (\E i \in 1..Len(e.a) : IsNumK(e.a[i]) /\ Has(e.a[i].v, "dec")) \/ (\E i \in 1..Len(e.rr) : e.rr[i].ok /\ NumUnranked(e.rr[i].val)) \/ (e.api \in NumBinArith /\ \E i \in 1..Len(e.a) : IsNumK(e.a[i]) /\ BigLm(e.a[i].v)) THEN {} ELSE {"C20.RepInvariant"})
  \cup (IF e.r.ok /\ ~WellFormedR(e.r) THEN {"C06.WellFormed"} ELSE {})
  \* results computed from every physical representation of the operands (non-normalized input strings, other precisions) are well-formed too
  \cup (IF \E i \in 1..Len(e.rr) : e.rr[i].ok /\ ~WellFormedR(e.rr[i]) THEN {"C06.WellFormed"} ELSE {})
  \cup (IF e.r.ok /\ AllWhollyKnown(e.a) /\ ~WhollyKnown(e.r.val) /\ e.api \in AllOps THEN {"C01.KnownInKnownOut"} ELSE {})
  \cup (IF e.r.ok /\ AllWhollyKnown(e.a) /\ e.api \in NeverNullOps /\ e.r.val.st = "null" THEN {"C01.NeverNull"} ELSE {})
CallNontrivial(e) == e.r.ok

\* --- C01 / C12 on a (concrete, weakened) pair of runs: a = concrete, b = weakened
RECURSIVE HasNumBounds(_)
HasNumBounds(v) == IF v.st = "unk" THEN Has(v.rf, "lo") \/ Has(v.rf, "hi") ELSE \E m \in Members(v) : HasNumBounds(m)
WeakPremise(e) ==
  /\ Len(e.a) = Len(e.b)
  /\ (\A i \in 1..Len(e.a) : e.a[i] = e.b[i] \/ (Ranked(e.a[i]) /\ Ranked(e.b[i]))) /\ ResRanked(e.rb)     \* (an operand left as it is needs no order in the model)
  /\ (ResRanked(e.ra) \/ (e.rb.ok /\ ~HasNumBounds(e.rb.val)))    \* an order is needed only against numeric bounds
  /\ \A i \in 1..Len(e.a) : e.a[i] = e.b[i] \/ Admits(e.b[i], e.a[i])
\* the placeholder REQUESTED by the generator (bq, logged when it differs from what the library built) admits the replaced part,
\* but the value the refinement API actually returned for those statements does not: the API turned true statements about the
\* replaced part into a value that excludes it
BuiltBreaks(e) == e.ev = "pair" /\ e.rel = "weak" /\ Has(e, "bq") /\ Len(e.bq) = Len(e.a) /\ Len(e.b) = Len(e.a)
                  /\ AllRanked(e.a) /\ AllRanked(e.b) /\ AllRanked(e.bq)
                  /\ (\A i \in 1..Len(e.a) : Admits(e.bq[i], e.a[i])) /\ (\E i \in 1..Len(e.a) : ~Admits(e.b[i], e.a[i]))
WeakFailed(e, P) ==
  (IF Has(e, "rbs") /\ Len(e.rbs) # 1 THEN {"C20.Pure"} ELSE {}) \cup InputsChanged(e) \cup
  IF ~e.ra.ok THEN {}       \* failing concrete calls are outside the quantifier
  ELSE IF ~e.rb.ok THEN {P \o ".NoNewFailure"}
  ELSE (IF Admits(e.rb.val, e.ra.val) THEN {} ELSE {P \o ".ResultAdmits"})
       \cup (IF AllWhollyKnown(e.b) /\ ~WhollyKnown(e.rb.val) THEN {P \o ".KnownInKnownOut"} ELSE {})
       \cup (IF ~WellFormedR(e.rb) \/ ~WellFormedR(e.ra) THEN {"C06.WellFormed"} ELSE {})
WeakNontrivial(e) == e.ra.ok /\ e.a # e.b

\* --- C04 on a (marked, unmarked) pair of runs: a = marked, b = stripped
StripAll(s) == [i \in 1..Len(s) |-> UnmarkDeep(s[i])]
MarkPremise(e) == Len(e.a) = Len(e.b) /\ StripAll(e.a) = e.b
UnionMarks(s) == UNION {MarksIn(s[i]) : i \in 1..Len(s)}
UnionTopMarks(s) == UNION {TopMarks(s[i]) : i \in 1..Len(s)}
MarkFailed(e) ==
  InputsChanged(e) \cup
  \* a marked operand re-read after the call carries, at every position, the marks it carried before: otherwise whatever is
  \* computed from it next carries a mark that no input carried
  (IF Has(e, "a2") /\ e.a2 # e.a THEN {"C04.NoInventionOnReuse"} ELSE {}) \cup
  IF e.ra.ok # e.rb.ok THEN {"C04.SameOutcome"}
  ELSE IF ~e.ra.ok THEN {}
  ELSE (IF UnmarkDeep(e.ra.val) = UnmarkDeep(e.rb.val) THEN {} ELSE {"C04.SameValue"})
       \cup (IF MarksIn(e.ra.val) \subseteq UnionMarks(e.a) THEN {} ELSE {"C04.NoInvention"})
       \cup (IF MarksIn(e.rb.val) = {} THEN {} ELSE {"C04.NoInvention"})
       \cup (IF e.api \in AllOps \cup {"Convert"} /\ ~(UnionTopMarks(e.a) \subseteq MarksIn(e.ra.val)) THEN {"C04.TopMarksKept"} ELSE {})
       \cup (IF Has(e, "am") /\ ~(UNION {MarksIn(e.a[i]) : i \in {j \in 1..Len(e.a) : ~e.am[j]}} \subseteq MarksIn(e.ra.val))
             THEN {"C04.DeepMarksKept"} ELSE {})
       \cup (IF e.api = "SetVal" /\ ~(UnionMarks(e.a) = TopMarks(e.ra.val)) THEN {"C04.SetHoists"} ELSE {})
       \* the mark API: WithSameMarks / WithMarks give the receiver exactly its own top-level marks plus those of the sources;
       \* Unmark removes the top-level marks only, UnmarkDeep all; none of them changes the value
       \cup (IF e.api \in {"WithSameMarks", "WithMarks"} /\ TopMarks(e.ra.val) # UnionTopMarks(e.a) THEN {"C04.MarkApiExact"} ELSE {})
       \cup (IF e.api = "Unmark" /\ (TopMarks(e.ra.val) # {} \/ MarksIn(e.ra.val) # UNION {MarksIn(m) : m \in Members(e.a[1])}) THEN {"C04.MarkApiExact"} ELSE {})
       \cup (IF e.api = "UnmarkDeep" /\ MarksIn(e.ra.val) # {} THEN {"C04.MarkApiExact"} ELSE {})
       \cup (IF e.api \in {"WithSameMarks", "WithMarks", "Unmark", "UnmarkDeep"} /\ UnmarkDeep(e.ra.val) # UnmarkDeep(e.a[1]) THEN {"C04.MarkApiKeepsValue"} ELSE {})
       \cup (IF ~WellFormedR(e.ra) THEN {"C06.WellFormed"} ELSE {})
MarkNontrivial(e) == e.ra.ok /\ UnionMarks(e.a) # {}

(***************************************************************************)
(* Operand universes                                                       *)
(***************************************************************************)
NumK1 == {K(TNum, n) : n \in Nums}
BoolK1 == {BoolV(TRUE), BoolV(FALSE)}
KeyNums == {NumV(0), NumV(4), NumV(8), NumV(-4), NumV(2), NumV(-2), NumV(-1), NumV(6), Null(TNum),
            \* whole numbers far beyond any length (2^63-1, 2^64, 2^64+1, 10^30) and an infinity: absent keys
            NumK([lm |-> "i64max"]), NumK([lm |-> "u64maxp"]), NumK([lm |-> "u64maxpp"]), NumK([lm |-> "e30"]), K(TNum, PInf)}
KeyStrs == {StrV(<<"a">>), StrV(<<"b">>), StrV(<<"a", "b">>), Null(TStr)}
IndexableT == {t \in VT : t.k \in {"list", "tuple", "map"}}
SetT == {t \in VT : t.k = "set"}
ObjT == {t \in VT : t.k = "object"}
LenT == {t \in VT : t.k \in {"list", "set", "map", "tuple"}}

\* wholly known, well-typed operand tuples per operation
ArgTuples(op) ==
  CASE op \in NumBin -> {<<x, y>> : x \in NumK1, y \in NumK1}
                        \cup (IF op \in {"Add", "Subtract"} THEN {<<NumK([lm |-> n]), u>> : n \in DOMAIN LmNext \cup {LmNext[m] : m \in DOMAIN LmNext}, u \in {NumV(4), NumV(-4)}}
                                                                  \cup {<<u, NumK([lm |-> n])>> : n \in DOMAIN LmNext, u \in {NumV(4), NumV(-4)}} ELSE {})
                        \* big landmarks scaled by -1, 0, 1, 2 in both operand orders, divided by -1, 1, 2 and by themselves, minus themselves
                        \cup (IF op = "Multiply" THEN {<<NumK([lm |-> n]), K(TNum, u)>> : n \in LmScaled, u \in LmFactors} \cup {<<K(TNum, u), NumK([lm |-> n])>> : n \in LmScaled, u \in LmFactors} ELSE {})
                        \cup (IF op = "Divide" THEN {<<NumK([lm |-> n]), K(TNum, u)>> : n \in LmScaled, u \in LmFactors \ {Qn(0)}} ELSE {})
                        \cup (IF op \in {"Divide", "Subtract"} THEN {<<NumK([lm |-> n]), NumK([lm |-> n])>> : n \in LmScaled} ELSE {})
                        \cup (IF op \in NumCmp THEN LmPairs ELSE {})
                        \* one decimal text held at different precisions (equal for cty, different rationals), and neighbours
                        \cup (IF op = "Modulo" THEN {<<K(TNum, [dec |-> x]), K(TNum, [dec |-> y])>> : x \in {"1/10", "3/10", "1/3", "7/5"}, y \in {"1/10", "3/10", "1/3", "7/5"}} ELSE {})
    [] op \in NumUn -> {<<x>> : x \in NumK1} \cup {<<NumK([lm |-> n])>> : n \in LmScaled}
    [] op \in BoolBin -> {<<x, y>> : x \in BoolK1, y \in BoolK1}
    [] op \in BoolUn -> {<<x>> : x \in BoolK1}
    [] op \in {"Index", "HasIndex"} ->
         UNION {{<<c, k>> : c \in AllVals(t), k \in IF t.k = "map" THEN KeyStrs ELSE KeyNums} : t \in IndexableT}
         \* strings and keys that have a non-normalized spelling without any combining mark (OHM SIGN, conjoining jamo)
         \cup {<<SeqV(TList(TStr), <<StrV(<<"omega">>), StrV(<<"hangul", "a">>)>>), k>> : k \in {NumV(0), NumV(4)}}
         \cup {<<MapV(TMap(TStr), [omega |-> StrV(<<"hangul">>), a |-> StrV(<<"omega", "b">>)]), k>> : k \in {StrV(<<"omega">>), StrV(<<"a">>)}}
    [] op = "HasElement" ->
         UNION {{<<c, m>> : c \in Vals(t, W), m \in Members_(t.e, W)} : t \in SetT}
    [] op = "Length" -> UNION {{<<c>> : c \in Vals(t, W)} : t \in LenT}
    [] op = "GetAttr" -> UNION {{<<c>> : c \in Vals(t, W)} : t \in ObjT}
                         \* attribute names whose spelling is normalized / needs quoting: eacute (precomposed), sp (with a space)
                         \cup {<<MapV(TObj([eacute |-> TNum, a |-> TStr]), [eacute |-> NumV(4), a |-> StrV(<<"a">>)])>>,
                               <<MapV(TObj([sp |-> TStr]), [sp |-> StrV(<<"b">>)])>>,
                               <<MapV(TObj([omega |-> TStr, a |-> TStr]), [omega |-> StrV(<<"omega">>), a |-> StrV(<<"hangul", "a">>)])>>}
    [] OTHER -> {}

EqTypes == IF Thorough THEN VT ELSE PrimTypes \cup VT1 \cup TakeN(VT2, 5)
\* values of the same shape that differ from x in exactly one member (the pairs on which equality is decided by one comparison)
Differ1(x, v) ==
  x.st = "k" /\ v.st = "k" /\
  CASE x.ty.k \in {"list", "tuple"} -> Len(Elems(x)) = Len(Elems(v)) /\ Cardinality({i \in 1..Len(Elems(x)) : Elems(x)[i] # Elems(v)[i]}) = 1
    [] x.ty.k \in {"map", "object"} -> DOMAIN Attrs(x) = DOMAIN Attrs(v) /\ Cardinality({n \in DOMAIN Attrs(x) : Attrs(x)[n] # Attrs(v)[n]}) = 1
    [] OTHER -> FALSE
EqPairs(t) == LET A == AllVals(t) IN
  UNION {{<<x, y>> : y \in {x} \cup TakeN(A, IF Thorough THEN 6 ELSE 3) \cup TakeN({v \in A : Differ1(x, v)}, IF Thorough THEN 4 ELSE 2)} : x \in A}
  \cup (IF t.k = "number" THEN LmPairs ELSE {})

\* ill-typed operand tuples (C02.RejectsIllTyped) and documented "False" cases
IllTyped(op) ==
  CASE op \in NumBin -> {<<StrV(<<"a">>), NumV(4)>>, <<NumV(4), BoolV(TRUE)>>, <<SeqV(TList(TNum), <<>>), NumV(0)>>}
    [] op \in NumUn -> {<<StrV(<<"a">>)>>, <<BoolV(TRUE)>>}
    [] op \in BoolBin -> {<<NumV(4), BoolV(TRUE)>>, <<BoolV(TRUE), StrV(<<>>)>>}
    [] op \in BoolUn -> {<<NumV(0)>>, <<StrV(<<"a">>)>>}
    [] op \in {"Index", "HasIndex"} ->
         {<<SeqV(TList(TNum), <<NumV(0)>>), StrV(<<"a">>)>>, <<MapV(TMap(TNum), [a |-> NumV(0)]), NumV(0)>>,
          <<NumV(0), NumV(0)>>, <<SeqV(TSet(TNum), <<NumV(0)>>), NumV(0)>>, <<MapV(TObj([a |-> TNum]), [a |-> NumV(0)]), StrV(<<"a">>)>>}
    [] op = "HasElement" -> {<<SeqV(TList(TNum), <<NumV(0)>>), NumV(0)>>, <<SeqV(TSet(TNum), <<NumV(0)>>), StrV(<<"a">>)>>, <<NumV(0), NumV(0)>>}
    [] op = "Length" -> {<<StrV(<<"a">>)>>, <<NumV(4)>>, <<BoolV(TRUE)>>}
    [] op = "GetAttr" -> {<<MapV(TMap(TNum), [a |-> NumV(0)])>>, <<MapV(TObj([b |-> TNum]), [b |-> NumV(0)])>>, <<NumV(0)>>}
    [] op \in EqOps -> {<<NumV(4), StrV(<<"a">>)>>, <<SeqV(TList(TNum), <<>>), SeqV(TList(TStr), <<>>)>>,
                        <<Null(TNum), Null(TStr)>>, <<SeqV(TTup(<<>>), <<>>), MapV(TObj(<<>>), <<>>)>>}

XFor(op, a) == IF op = "GetAttr" THEN (IF a[1].ty.k = "object" /\ DOMAIN a[1].ty.as # {} THEN [name |-> CHOOSE n \in DOMAIN a[1].ty.as : TRUE] ELSE [name |-> "a"])
               ELSE [none |-> TRUE]
XAll(op, a) == IF op = "GetAttr" /\ a[1].ty.k = "object" /\ DOMAIN a[1].ty.as # {} THEN {[name |-> n] : n \in DOMAIN a[1].ty.as}
                                                                                           \cup (IF "eacute" \in DOMAIN a[1].ty.as THEN {[name |-> "eacute", nfd |-> TRUE]} ELSE {})
                                                                                           \cup (IF "omega" \in DOMAIN a[1].ty.as THEN {[name |-> "omega", nfd |-> TRUE]} ELSE {})
               ELSE {XFor(op, a)}

=============================================================================
