----------------------------- MODULE RangeOfGen -----------------------------
(* Values whose Range() is observed: every known / null / unknown value of the *)
(* primitive and first-level types, and structures holding unknown members.    *)
EXTENDS Values, Json
RT == PrimTypes \cup VT1
ValsOfT(t) == AllVals(t) \cup UnkVals(t) \cup {Unk(t, NoRf)} \cup UNION {TakeN(Weak1(v, FALSE), 8) : v \in TakeN(Vals(t, W), 6)}
              \cup (IF t.k = "number" THEN {K(TNum, PInf), K(TNum, NInf), K(TNum, [lm |-> "almost1"]), K(TNum, [lm |-> "u64max"])} ELSE {})
Line(t) == [vals |-> SetToSeq({v \in ValsOfT(t) : TEquals(v.ty, t)}), cands |-> SetToSeq(TakeN(AllVals(t), 10))]
ASSUME LET sq == SetToSeq(RT) IN ndJsonSerialize(IOEnv.VOUT, [i \in 1..Len(sq) |-> Line(sq[i])]) /\ PrintT(<<"GEN", Len(sq)>>)
VARIABLE x
Init == x = 0
Next == UNCHANGED x
=============================================================================
