----------------------------- MODULE MsgpackGen -----------------------------
EXTENDS Msgpack, Json
ShardI == EnvInt("VSHARDI", 0)
ShardN == EnvInt("VSHARDN", 1)
RECURSIVE DynAtM(_)
DynAtM(t) == {TDyn} \cup
  CASE t.k \in CollKinds -> {[t EXCEPT !.e = x] : x \in DynAtM(t.e)}
    [] t.k = "tuple" -> UNION {{[t EXCEPT !.es[i] = x] : x \in DynAtM(t.es[i])} : i \in 1..Len(t.es)}
    [] t.k = "object" -> UNION {{[t EXCEPT !.as[n] = x] : x \in DynAtM(t.as[n])} : n \in DOMAIN t.as}
    [] OTHER -> {}
MT == IF Thorough THEN VT ELSE PrimTypes \cup VT1 \cup TakeN(VT2, 8)
NumExtra == {K(TNum, [lm |-> x]) : x \in {"i64max", "i64maxp", "i64min", "i64minm", "u64max", "u64maxp", "e30", "tenth", "third", "f64intp", "u32maxh", "f64max", "e300"}}
            \cup {K(TNum, [dec |-> "12345678901234567890123"]), K(TNum, [dec |-> "1/10"]), NumV(-10), NumV(1), K(TNum, PInf), K(TNum, NInf)}
Long(n) == [i \in 1..n |-> "a"]
StrExtra == {Unk(TStr, [null |-> "F", prefix |-> Long(300)]), Unk(TStr, [null |-> "U", prefix |-> Long(254) \o <<"eacute", "b", "c">>]),
             Unk(TStr, [null |-> "F", prefix |-> Long(255) \o <<"e", "acute">>]), Unk(TStr, [null |-> "F", prefix |-> Long(256)]),
             Unk(TStr, [null |-> "F", prefix |-> <<"a", "e">>])}
            \* 4-byte and 3-byte characters lying across the cut at every byte alignment
            \cup {Unk(TStr, [null |-> "F", prefix |-> Long(250 + j) \o <<"wave", "wave", "wave">> \o Long(8)]) : j \in 0..3}
            \cup {Unk(TStr, [null |-> "U", prefix |-> Long(251 + j) \o <<"zwj", "zwj", "zwj">> \o Long(8)]) : j \in 0..2}
            \cup {Unk(TStr, [null |-> "F", prefix |-> Long(253 + j) \o <<"eacute", "eacute", "eacute">>]) : j \in 0..1}
NumUnk == {Unk(TNum, r) : r \in {[null |-> "F", lo |-> PInf, loInc |-> TRUE], [null |-> "U", lo |-> [lm |-> "i64maxp"], loInc |-> FALSE, hi |-> [lm |-> "u64max"], hiInc |-> TRUE],
                                   [null |-> "F", lo |-> [lm |-> "tenth"], loInc |-> TRUE], [null |-> "U", hi |-> [lm |-> "e30"], hiInc |-> FALSE],
                                   [null |-> "F", lo |-> Qn(2), loInc |-> FALSE, hi |-> Qn(4), hiInc |-> FALSE],
                                   \* bounds that are neither machine integers nor exact float64 values (a bound may only be approximated outward)
                                   [null |-> "F", hi |-> [lm |-> "u64maxpp"], hiInc |-> TRUE], [null |-> "U", lo |-> [lm |-> "i64minm"], loInc |-> TRUE],
                                   [null |-> "F", lo |-> [lm |-> "u64max"], loInc |-> TRUE, hi |-> [lm |-> "u64maxpp"], hiInc |-> FALSE],
                                   [null |-> "F", lo |-> [lm |-> "f64intp"], loInc |-> TRUE, hi |-> [lm |-> "i64max"], hiInc |-> TRUE],
                                   [null |-> "U", lo |-> [lm |-> "third"], loInc |-> TRUE, hi |-> [lm |-> "almost1"], hiInc |-> TRUE],
                                   [null |-> "F", lo |-> [lm |-> "malmost1"], loInc |-> TRUE, hi |-> [lm |-> "tenth"], hiInc |-> TRUE],
                                   [null |-> "F", lo |-> [lm |-> "mf64maxp"], loInc |-> TRUE, hi |-> [lm |-> "f64maxp"], hiInc |-> TRUE]}}
\* collections that may be longer than any limit the decoder applies to what it allocates (1024): a bound may be widened, never lowered
LongUnk(t) == IF IsCollT(t) THEN {Unk(t, [null |-> "F", maxLen |-> 5000]), Unk(t, [null |-> "U", minLen |-> 2000, maxLen |-> 5000]), Unk(t, [null |-> "U", minLen |-> 1500, maxLen |-> 1500]),
                                  Unk(t, [null |-> "F", minLen |-> 1025])} ELSE {}
Base(t) == TakeN(AllVals(t), IF Thorough THEN 30 ELSE 10) \cup UnkVals(t) \cup {Unk(t, NoRf)} \cup LongUnk(t)
           \cup (IF t.k = "number" THEN NumExtra \cup NumUnk ELSE IF t.k = "string" THEN StrExtra ELSE {})
           \cup UNION {TakeN(Weak1(v, FALSE), IF Thorough THEN 12 ELSE 5) : v \in TakeN(Vals(t, W), IF Thorough THEN 8 ELSE 4)}
           \cup UNION {TakeN(WeakN(v, 2, TRUE), 6) : v \in TakeN(Vals(t, W), 3)}
Marked(t) == {WithMk(v, <<"m1">>) : v \in TakeN(Vals(t, W), 2)} \cup {WithMk(Null(t), <<"m1">>), WithMk(Unk(t, NoRf), <<"m2">>)}
             \cup UNION {TakeN(MarkNested(v, <<"m2">>), 2) : v \in TakeN(Vals(t, W), 3)}
TS == SetToSeq(MT)
Mine == SetToSeq({i \in 1..Len(TS) : i % ShardN = ShardI})
\* values whose own type still contains placeholders (DynamicVal / untyped null members, unknown collections of dynamic)
DynNested == {SeqV(TTup(<<TDyn, TNum>>), <<DynVal, NumV(4)>>), SeqV(TTup(<<TDyn, TDyn, TStr>>), <<DynVal, DynVal, StrV(<<"a">>)>>),
              MapV(TObj([a |-> TDyn, b |-> TStr]), [a |-> DynVal, b |-> StrV(<<"a">>)]), MapV(TObj([a |-> TDyn, b |-> TNum]), [a |-> DynVal, b |-> NumV(8)]),
              SeqV(TList(TDyn), <<DynVal, DynVal>>), SeqV(TTup(<<TTup(<<TDyn, TNum>>), TNum>>), <<SeqV(TTup(<<TDyn, TNum>>), <<DynVal, NumV(4)>>), NumV(8)>>),
              SeqV(TTup(<<TDyn>>), <<DynVal>>), SeqV(TTup(<<TDyn, TNum>>), <<Null(TDyn), NumV(4)>>), MapV(TObj([a |-> TDyn]), [a |-> DynVal]),
              MapV(TObj([a |-> TDyn, b |-> TStr]), [a |-> Null(TDyn), b |-> StrV(<<"a">>)]), Unk(TList(TDyn), NoRf), Unk(TMap(TDyn), [null |-> "F"]),
              Null(TList(TDyn)), SeqV(TList(TDyn), <<>>), DynVal, Null(TDyn), SeqV(TTup(<<TTup(<<TDyn>>)>>), <<SeqV(TTup(<<TDyn>>), <<DynVal>>)>>)}
\* collections longer than any preallocation limit of the decoder (1024), alone and followed by a sibling
LongList == SeqV(TList(TNum), [i \in 1..1030 |-> NumV(4 * (i % 3))])
LongVals == {LongList, SeqV(TTup(<<TList(TNum), TStr>>), <<LongList, StrV(<<"a">>)>>), SeqV(TSet(TNum), [i \in 1..1030 |-> NumV(4 * i)]),
             MapV(TObj([a |-> TList(TNum), b |-> TNum]), [a |-> LongList, b |-> NumV(8)])}
DynLines == {[vals |-> <<v>>, tys |-> <<TDyn, v.ty>>] : v \in DynNested \cup LongVals}
Line(t) == [vals |-> SetToSeq(Base(t) \cup Marked(t)), tys |-> SetToSeq({t} \cup DynAtM(t))]
ASSUME LET out == [j \in 1..Len(Mine) |-> Line(TS[Mine[j]])] \o (IF ShardI = 0 THEN SetToSeq(DynLines) ELSE <<>>) IN ndJsonSerialize(IOEnv.VOUT, out) /\ PrintT(<<"GEN", Len(out)>>)
VARIABLE x
Init == x = 0
Next == UNCHANGED x
=============================================================================
