------------------------------ MODULE FuncGen -------------------------------
(* Specifications x argument lists for the function-call protocol.           *)
(*  VFAM = "one"    : exhaustive: one parameter (positional or variadic),    *)
(*                    every flag combination, argument lists of length 0..2  *)
(*  VFAM = "sample" : RandomSubset of the full product (0..2 positional +    *)
(*                    optional variadic, all flags, all callback behaviours, *)
(*                    lists of length 0..4)                                  *)
EXTENDS FuncCall, Json, Randomization
Fam == Env("VFAM", "one")
NSample == EnvInt("VN", 5000)
PTypes == {TStr, TList(TStr), TDyn}
\* a structured constraint: a nested object matched through placeholders, followed by a plain sibling attribute
NestT == TObj([a |-> TObj([x |-> TDyn, y |-> TDyn]), b |-> TStr])
NestArgT(bt) == TObj([a |-> TObj([x |-> TNum, y |-> TBool]), b |-> bt])
NestArg(bt, bv) == MapV(NestArgT(bt), [a |-> MapV(TObj([x |-> TNum, y |-> TBool]), [x |-> NumV(4), y |-> BoolV(TRUE)]), b |-> bv])
Params == [ty : PTypes, an : BOOLEAN, au : BOOLEAN, ad : BOOLEAN, am : BOOLEAN]
          \cup {[ty |-> NestT, an |-> f, au |-> f, ad |-> f, am |-> f] : f \in BOOLEAN}
\* argument descriptors, made concrete relative to the parameter type
Descs == {"conf", "nonconf", "null", "unk", "dyn", "dynnull", "mtop", "mdeep", "munk", "mnull", "mdeepunk", "msib"}
Base(t) == IF t.k = "object" THEN NestArg(TStr, StrV(<<"a">>)) ELSE IF t.k = "list" THEN SeqV(TList(TStr), <<StrV(<<"a">>), StrV(<<"b">>)>>) ELSE StrV(<<"a">>)
BT(t) == IF t.k = "object" THEN NestArgT(TStr) ELSE IF t.k = "list" THEN TList(TStr) ELSE TStr
ArgVal(d, t) ==
  CASE d = "conf" -> Base(t)
    [] d = "nonconf" -> IF t.k = "object" THEN NestArg(TNum, NumV(4)) ELSE IF t.k = "list" THEN StrV(<<"a">>) ELSE IF t.k = "string" THEN NumV(4) ELSE SeqV(TTup(<<>>), <<>>)
    [] d = "null" -> Null(BT(t))
    [] d = "unk" -> Unk(BT(t), NoRf)
    [] d = "dyn" -> DynVal
    [] d = "dynnull" -> Null(TDyn)
    [] d = "mtop" -> WithMk(Base(t), <<"m1">>)
    [] d = "mdeep" -> IF t.k = "list" THEN SeqV(TList(TStr), <<StrV(<<"a">>), WithMk(StrV(<<"b">>), <<"m2">>)>>) ELSE WithMk(Base(t), <<"m1", "m2">>)
    [] d = "munk" -> WithMk(Unk(BT(t), NoRf), <<"m2">>)
    \* a nested mark next to a nested unknown in one argument
    [] d = "mdeepunk" -> IF t.k = "list" THEN SeqV(TList(TStr), <<WithMk(StrV(<<"b">>), <<"m2">>), Unk(TStr, NoRf)>>)
                         ELSE IF t.k = "dynamic" THEN SeqV(TTup(<<TStr, TStr>>), <<WithMk(StrV(<<"b">>), <<"m1">>), Unk(TStr, NoRf)>>) ELSE WithMk(Unk(TStr, [null |-> "F"]), <<"m1">>)
    [] d = "mnull" -> WithMk(Null(BT(t)), <<"m1">>)
    \* one mark met again in a second nested container (and on a container as well as inside it)
    [] d = "msib" -> IF t.k = "dynamic" THEN SeqV(TTup(<<TList(TStr), TList(TStr)>>), <<SeqV(TList(TStr), <<WithMk(StrV(<<"a">>), <<"m1">>)>>), SeqV(TList(TStr), <<WithMk(StrV(<<"b">>), <<"m1">>)>>)>>)
                     ELSE IF t.k = "list" THEN WithMk(SeqV(TList(TStr), <<StrV(<<"a">>), WithMk(StrV(<<"b">>), <<"m1">>)>>), <<"m1">>)
                     ELSE WithMk(Base(t), <<"m1">>)
Tcbs == {"okT", "okDyn", "err", "panic"}
Icbs == {"conf", "nonconf", "err", "panic", "unknown"}
MkArgs(s, ds) == [i \in 1..Len(ds) |-> ArgVal(ds[i], IF IsParam(ParamOf(s, i)) THEN ParamOf(s, i).ty ELSE TStr)]
\* one parameter, exhaustive
OneSpecs == {[ps |-> <<p>>, var |-> NoParam, tcb |-> t, icb |-> i, rr |-> r] : p \in Params, t \in Tcbs, i \in Icbs, r \in BOOLEAN}
            \cup {[ps |-> <<>>, var |-> p, tcb |-> t, icb |-> i, rr |-> r] : p \in Params, t \in Tcbs, i \in Icbs, r \in BOOLEAN}
\* (the full callback product made the thorough one-parameter family exceed its generation time limit; the thorough tier now takes
\*  the same thinned callback menu here and covers the remaining callback behaviours through its larger sampled family)
ThinCb(s) == s.tcb \in {"okT", "panic"} /\ s.icb \in {"conf", "nonconf", "unknown"} /\ s.rr
\* a RefineResult that states "null": meaningful only for implementations whose every result is unknown (anything else is the function author's error)
NullRefined(S0) == {s @@ [rrk |-> "null"] : s \in {x \in S0 : x.rr /\ x.icb \in {"unknown", "err"}}}
\* derived functions (WithNewDescriptions, Unpredictable, Proxy) of the string-parameter specifications
Wraps == {"redesc", "unpred", "proxy"}
Wrapped(S0) == {s @@ [wrap |-> "none"] : s \in S0} \cup {s @@ [wrap |-> w] : s \in {x \in S0 : \A i \in 1..Len(x.ps) : x.ps[i].ty = TStr}, w \in Wraps}
OneLines == {[spec |-> s, dss |-> SetToSeq(SeqsUpTo(Descs, IF IsParam(s.var) THEN 2 ELSE 1) \cup {<<"conf", "conf">>})] : s \in Wrapped({x \in OneSpecs : ThinCb(x)} \cup NullRefined({x \in OneSpecs : ThinCb(x)}))}
\* the full product, sampled
POpt == Params \cup {NoParam}
SampleSpace == [p1 : POpt, p2 : POpt, var : POpt, tcb : Tcbs, icb : Icbs, rr : BOOLEAN, ds : SeqsUpTo(Descs, 3), wrap : Wraps \cup {"none"}]
ToSpec(x) == [wrap |-> x.wrap] @@ [ps |-> (IF IsParam(x.p1) THEN <<x.p1>> ELSE <<>>) \o (IF IsParam(x.p2) THEN <<x.p2>> ELSE <<>>), var |-> x.var, tcb |-> x.tcb, icb |-> x.icb, rr |-> x.rr]
SampleLines == {[spec |-> ToSpec(x), dss |-> <<x.ds, x.ds \o <<"conf">>, <<"conf">> \o x.ds>>] : x \in RandomSubset(NSample, SampleSpace)}
Lines == IF Fam = "one" THEN OneLines ELSE SampleLines
Expand(ln) == [spec |-> ln.spec, argss |-> [k \in 1..Len(ln.dss) |-> MkArgs(ln.spec, ln.dss[k])]]
LSeq == SetToSeq(Lines)
ShardI == EnvInt("VSHARDI", 0)
ShardN == EnvInt("VSHARDN", 1)
MineF == SetToSeq({i \in 1..Len(LSeq) : i % ShardN = ShardI})
ASSUME ndJsonSerialize(IOEnv.VOUT, [j \in 1..Len(MineF) |-> Expand(LSeq[MineF[j]])])
ASSUME PrintT(<<"GEN", Len(MineF)>>)
VARIABLE x
Init == x = 0
Next == UNCHANGED x
=============================================================================
