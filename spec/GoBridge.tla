------------------------------- MODULE GoBridge ------------------------------
(***************************************************************************)
(* gocty: bridging between Go values and cty values for a fixed family of  *)
(* Go types, mirrored as descriptors [g |-> kind, ...].             [C18]  *)
(***************************************************************************)
EXTENDS Values
IntKinds == {"int", "int8", "int16", "int32", "int64"}
UintKinds == {"uint", "uint8", "uint16", "uint32", "uint64"}
FloatKinds == {"float32", "float64"}
NumKinds == IntKinds \cup UintKinds \cup FloatKinds
LM(x) == [lm |-> x]
MinOf(k) == CASE k = "int8" -> Qn(-512) [] k = "int16" -> LM("i16min") [] k = "int32" -> LM("i32min") [] k \in {"int64", "int"} -> LM("i64min") [] OTHER -> Qn(0)
MaxOf(k) == CASE k = "int8" -> Qn(508) [] k = "int16" -> LM("i16max") [] k = "int32" -> LM("i32max") [] k \in {"int64", "int"} -> LM("i64max")
              [] k = "uint8" -> Qn(1020) [] k = "uint16" -> LM("u16max") [] k = "uint32" -> LM("u32max") [] k \in {"uint64", "uint"} -> LM("u64max")
\* can number n be stored exactly-or-faithfully in Go kind k?
Representable(n, k) ==
  IF k \in IntKinds \cup UintKinds THEN IsWholeN(n) /\ ~IsInfN(n) /\ NumLE(MinOf(k), n) /\ NumLE(n, MaxOf(k))
  ELSE IF k = "float64" THEN IsInfN(n) \/ (NumLE(LM("mf64max"), n) /\ NumLE(n, LM("f64max")))
  ELSE IsInfN(n) \/ (NumLE(LM("mf32max"), n) /\ NumLE(n, LM("f32max")))
\* is n exactly a value of kind k (so that the stored number must be identical)?
ExactIn(n, k) == IF k = "float64" THEN IsF64N(n) ELSE IF k = "float32" THEN (Has(n, "q") \/ n \in {LM("f32max"), LM("mf32max"), PInf, NInf}) ELSE TRUE

\* ---- Go type descriptors and abstract Go values
GPrim(k) == [g |-> k]
GSlice(e) == [g |-> "slice", e |-> e]
GMap(e) == [g |-> "map", e |-> e]
GPtr(e) == [g |-> "ptr", e |-> e]
GStruct == [g |-> "struct1"]       \* struct { A int `cty:"a"`; B *string `cty:"b"` }
GCty == [g |-> "ctyvalue"]
\* two DIFFERENT struct types that share one Go type name ("rec", declared in two function scopes):
GRec1 == [g |-> "rec1"]            \* struct { A int `cty:"a"` }
GRec2 == [g |-> "rec2"]            \* struct { A string `cty:"a"`; C bool `cty:"c"` }
RECURSIVE ImpliedTypeRef(_)
ImpliedTypeRef(gt) ==
  CASE gt.g \in NumKinds \cup {"bigfloat", "bigint"} -> TNum
    [] gt.g = "string" -> TStr [] gt.g = "bool" -> TBool
    [] gt.g = "slice" -> TList(ImpliedTypeRef(gt.e)) [] gt.g = "map" -> TMap(ImpliedTypeRef(gt.e))
    [] gt.g = "ptr" -> ImpliedTypeRef(gt.e)
    [] gt.g = "struct1" -> TObj([a |-> TNum, b |-> TStr])
    [] gt.g = "rec1" -> TObj([a |-> TNum])
    [] gt.g = "rec2" -> TObj([a |-> TStr, c |-> TBool])
    [] gt.g = "ctyvalue" -> TDyn
\* the Go type of an abstract Go value is carried in the value: gv.t
RECURSIVE ToCtyRef(_)
ToCtyRef(gv) ==
  LET t == gv.t IN
  CASE t.g \in NumKinds \cup {"bigint", "bigfloat"} -> K(TNum, gv.n)
    [] t.g = "string" -> StrV(gv.s) [] t.g = "bool" -> BoolV(gv.b)
    [] t.g = "slice" -> IF gv.nil THEN Null(ImpliedTypeRef(t)) ELSE SeqV(ImpliedTypeRef(t), [i \in 1..Len(gv.vs) |-> ToCtyRef(gv.vs[i])])
    [] t.g = "map" -> IF gv.nil THEN Null(ImpliedTypeRef(t)) ELSE MapV(ImpliedTypeRef(t), [k \in DOMAIN gv.m |-> ToCtyRef(gv.m[k])])
    [] t.g = "ptr" -> IF gv.nil THEN Null(ImpliedTypeRef(t)) ELSE ToCtyRef(gv.v)
    [] t.g = "struct1" -> MapV(TObj([a |-> TNum, b |-> TStr]), [a |-> ToCtyRef(gv.a), b |-> ToCtyRef(gv.b)])
    [] t.g = "rec1" -> MapV(TObj([a |-> TNum]), [a |-> ToCtyRef(gv.a)])
    [] t.g = "rec2" -> MapV(TObj([a |-> TStr, c |-> TBool]), [a |-> ToCtyRef(gv.a), c |-> ToCtyRef(gv.c)])
    [] t.g = "ctyvalue" -> gv.v
\* abstract Go values are compared with numbers numerically
RECURSIVE GoEq(_, _)
GoEq(x, y) ==
  /\ x.t = y.t
  /\ CASE x.t.g \in NumKinds \cup {"bigint", "bigfloat"} -> IF HasRank(x.n) /\ HasRank(y.n) THEN NumSame(x.n, y.n) ELSE x.n = y.n
       [] x.t.g = "slice" -> x.nil = y.nil /\ (~x.nil => Len(x.vs) = Len(y.vs) /\ \A i \in 1..Len(x.vs) : GoEq(x.vs[i], y.vs[i]))
       [] x.t.g = "map" -> x.nil = y.nil /\ (~x.nil => DOMAIN x.m = DOMAIN y.m /\ \A k \in DOMAIN x.m : GoEq(x.m[k], y.m[k]))
       [] x.t.g = "ptr" -> x.nil = y.nil /\ (~x.nil => GoEq(x.v, y.v))
       [] x.t.g = "struct1" -> GoEq(x.a, y.a) /\ GoEq(x.b, y.b)
       [] x.t.g = "rec1" -> GoEq(x.a, y.a)
       [] x.t.g = "rec2" -> GoEq(x.a, y.a) /\ GoEq(x.c, y.c)
       [] x.t.g = "ctyvalue" -> x.v = y.v
       [] OTHER -> x = y
CtyMatch(o, r) == TEquals(o.ty, r.ty) /\ o.st = r.st /\ (IF o.st = "k" /\ o.ty.k = "number" THEN (IF HasRank(o.v) /\ HasRank(r.v) THEN NumSame(o.v, r.v) ELSE o.v = r.v)
                                                        ELSE IF o.st = "k" /\ IsPrimT(o.ty) THEN o.v = r.v ELSE TRUE)
RECURSIVE CtyMatchDeep(_, _)
CtyMatchDeep(o, r) ==
  CtyMatch(o, r) /\ (o.st = "k" =>
     CASE o.ty.k \in {"list", "tuple"} -> Len(Elems(o)) = Len(Elems(r)) /\ \A i \in 1..Len(Elems(o)) : CtyMatchDeep(Elems(o)[i], Elems(r)[i])
       [] o.ty.k \in {"map", "object"} -> DOMAIN Attrs(o) = DOMAIN Attrs(r) /\ \A k \in DOMAIN Attrs(o) : CtyMatchDeep(Attrs(o)[k], Attrs(r)[k])
       [] OTHER -> TRUE)

Nilable(gt) == gt.g \in {"slice", "map", "ptr", "ctyvalue"}
\* the cty kinds a Go kind can receive
RECURSIVE ShapeR(_)
ShapeR(gt) == IF gt.g = "ptr" THEN ShapeR(gt.e) ELSE
              CASE gt.g \in NumKinds \cup {"bigfloat", "bigint"} -> {"number"} [] gt.g = "string" -> {"string"} [] gt.g = "bool" -> {"bool"}
                [] gt.g = "slice" -> {"list", "set", "tuple"} [] gt.g = "map" -> {"map"} [] gt.g \in {"struct1", "rec1", "rec2"} -> {"object", "tuple"}     \* a tuple decodes into a struct field by field
                [] gt.g = "ctyvalue" -> {"bool", "number", "string", "list", "set", "map", "tuple", "object", "dynamic"}
RECURSIVE HasCty(_)
HasCty(gt) == gt.g = "ctyvalue" \/ (gt.g \in {"slice", "map", "ptr"} /\ HasCty(gt.e))

(***************************************************************************)
(* Rules                                                                   *)
(***************************************************************************)
GnumFailed(e) ==     \* [n, kind, r = [ok, stored | fail]]
  (IF ~e.r.ok /\ e.r.fail = "panic" THEN {"C18.NoPanic"} ELSE {})
  \cup (IF e.r.ok # Representable(e.n, e.kind) /\ ~(~e.r.ok /\ e.r.fail = "panic") THEN (IF e.r.ok THEN {"C18.RefusesUnrepresentable"} ELSE {"C18.AcceptsRepresentable"}) ELSE {})
  \cup (IF e.r.ok /\ Representable(e.n, e.kind) /\ ExactIn(e.n, e.kind) /\ ~(HasRank(e.r.stored) /\ NumSame(e.r.stored, e.n)) THEN {"C18.StoresThatNumber"} ELSE {})
\* a Go string that is not NFC-normalized cannot survive: cty normalizes every string on entry (documented)
RECURSIVE NonNFC(_)
NonNFC(gv) == CASE gv.t.g = "string" -> \E i \in 1..(Len(gv.s) - 1) : gv.s[i] = "e" /\ gv.s[i + 1] = "acute"
                [] gv.t.g = "slice" -> ~gv.nil /\ \E i \in 1..Len(gv.vs) : NonNFC(gv.vs[i])
                [] gv.t.g = "map" -> ~gv.nil /\ \E k \in DOMAIN gv.m : NonNFC(gv.m[k])
                [] gv.t.g = "ptr" -> ~gv.nil /\ NonNFC(gv.v)
                [] gv.t.g = "struct1" -> NonNFC(gv.b)
                [] gv.t.g = "rec2" -> NonNFC(gv.a)
                [] OTHER -> FALSE
GrtFailed(e) ==      \* [gv, it = [ok, t], cv = R, back = [ok, gv]]
  (IF (~e.it.ok /\ e.it.fail = "panic") \/ (~e.cv.ok /\ e.cv.fail = "panic") \/ (~e.back.ok /\ e.back.fail = "panic") THEN {"C18.NoPanic"} ELSE {})
  \cup (IF e.it.ok /\ TEquals(e.it.t, ImpliedTypeRef(e.gv.t)) THEN {} ELSE {"C18.ImpliedType"})   \* (it.given: type named by the caller, big numbers)
  \cup (IF e.cv.ok /\ CtyMatchDeep(e.cv.val, ToCtyRef(e.gv)) THEN {} ELSE IF NonNFC(e.gv) THEN {"C18.RoundTripExact.NonNFCString"} ELSE {"C18.ToCtyIsRef"})
  \cup (IF e.cv.ok /\ ~WellFormed(e.cv.val) THEN {"C06.WellFormed"} ELSE {})
  \cup (IF e.back.ok /\ GoEq(e.back.gv, e.gv) THEN {} ELSE IF NonNFC(e.gv) THEN {"C18.RoundTripExact.NonNFCString"} ELSE {"C18.RoundTripExact"})
  \* (what a caller kept from an earlier decode into the same target MAY be written through by the later one: a non-nil pointer
  \*  target is populated in place by design, so "kept" is logged but not judged)
  \* the same decode into a target that already holds an earlier result of the same Go type reproduces the Go value just as exactly
  \cup (IF ~Has(e, "back2") THEN {}
        ELSE IF ~e.back2.ok /\ e.back2.fail = "panic" THEN {"C18.NoPanic"}
        ELSE IF e.back2.ok /\ GoEq(e.back2.gv, e.gv) THEN {} ELSE IF NonNFC(e.gv) THEN {"C18.RoundTripExact.NonNFCString"} ELSE {"C18.RoundTripExact"})
\* an object type that lacks the attribute of the family's nilable struct field: decoding it leaves that field as the target had it
\* (by design, as for any absent attribute), so the stored Go value then legitimately depends on the target's earlier content
RECURSIVE LacksNilableAttr(_)
LacksNilableAttr(t) ==
  CASE t.k = "object" -> ("a" \in DOMAIN t.as /\ "b" \notin DOMAIN t.as) \/ \E n \in DOMAIN t.as : LacksNilableAttr(t.as[n])
    [] t.k \in {"list", "set", "map"} -> LacksNilableAttr(t.e)
    [] t.k = "tuple" -> \E i \in 1..Len(t.es) : LacksNilableAttr(t.es[i])
    [] OTHER -> FALSE
\* the attribute names a struct target of the family accepts; an object holding any other attribute cannot be stored
FieldsOf(gt) == CASE gt.g = "struct1" -> {"a", "b"} [] gt.g = "rec1" -> {"a"} [] gt.g = "rec2" -> {"a", "c"} [] OTHER -> {}
RECURSIVE HasUnacceptedAttr(_, _)
HasUnacceptedAttr(v, gt) ==
  IF v.st # "k" THEN FALSE
  ELSE CASE gt.g \in {"struct1", "rec1", "rec2"} -> v.ty.k = "object" /\ ~(DOMAIN v.ty.as \subseteq FieldsOf(gt))
         [] gt.g = "slice" -> v.ty.k \in {"list", "set", "tuple"} /\ \E i \in 1..Len(Elems(v)) : HasUnacceptedAttr(Elems(v)[i], gt.e)
         [] gt.g = "map" -> v.ty.k \in {"map", "object"} /\ \E n \in DOMAIN Attrs(v) : HasUnacceptedAttr(Attrs(v)[n], gt.e)
         [] gt.g = "ptr" -> HasUnacceptedAttr(v, gt.e)
         [] OTHER -> FALSE
GintoFailed(e) ==    \* [v, gt, r = [ok | fail]]   decoding a cty value into a Go target type
  LET v == e.v gt == e.gt IN
  (IF e.r.ok /\ MarksIn(v) = {} /\ HasUnacceptedAttr(v, gt) THEN {"C18.RefusesShapeMismatch"} ELSE {}) \cup
  (IF MarksIn(v) = {} /\ ~e.r.ok /\ e.r.fail = "panic" THEN {"C18.NoPanic"} ELSE {})
  \* decoding into a target that already holds an earlier result: same outcome, same stored Go value as into a fresh target
  \cup (IF ~Has(e, "r2") \/ MarksIn(v) # {} \/ LacksNilableAttr(v.ty) THEN {}
        ELSE IF ~e.r2.ok /\ e.r2.fail = "panic" THEN {"C18.NoPanic"}
        ELSE IF e.r.ok # e.r2.ok THEN {"C18.TargetContentIrrelevant"}
        ELSE IF e.r.ok /\ Has(e, "got") /\ Has(e.r2, "got") /\ e.got # e.r2.got THEN {"C18.TargetContentIrrelevant"} ELSE {})
  \cup (IF e.r.ok /\ v.st = "unk" /\ ~HasCty(gt) /\ MarksIn(v) = {} THEN {"C18.RefusesUnknown"} ELSE {})
  \cup (IF e.r.ok /\ v.st = "null" /\ ~Nilable(gt) /\ MarksIn(v) = {} THEN {"C18.RefusesNullIntoNonNilable"} ELSE {})
  \cup (IF e.r.ok /\ v.st = "k" /\ v.ty.k \notin ShapeR(gt) /\ MarksIn(v) = {} THEN {"C18.RefusesShapeMismatch"} ELSE {})
=============================================================================
