------------------------------- MODULE C07Gen -------------------------------
EXTENDS C07Types, Json, IOUtils
Which == IOEnv.VUNIVERSE
U == IF Which = "U2" THEN U2 ELSE U1 \cup U3
TSeq == SetToSeq(U)
ASSUME ndJsonSerialize(IOEnv.VOUT, [i \in 1..Len(TSeq) |-> [i |-> i, t |-> TSeq[i]]])
ASSUME PrintT(<<"GEN", Len(TSeq)>>)
VARIABLE x
Init == x = 0
Next == UNCHANGED x
=============================================================================
