INIT Init
NEXT Next
