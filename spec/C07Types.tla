------------------------------ MODULE C07Types ------------------------------
(***************************************************************************)
(* C07 - type equality, conformance and type serialization obey their      *)
(* algebra.  Contract rules over observed events + the bounded type        *)
(* universe that TLC enumerates for the real code.                         *)
(***************************************************************************)
EXTENDS Relations

\* ---- bounded universe with optional attributes and capsules
Names == {"a", "b"}
Leaf7 == {TBool, TNum, TStr, TDyn, TCap("c1"), TCap("c2"), TCap("c1x")}     \* c1x: same name and native type as c1, created separately

SortedSeqOf(o) == IF o = {} THEN <<>> ELSE IF o = {"a"} THEN <<"a">> ELSE IF o = {"b"} THEN <<"b">> ELSE <<"a", "b">>
ObjVariants(S) == {TObjOpt(as, SortedSeqOf(o)) : as \in RecsOver(Names, S), o \in SUBSET Names} 
ObjTypes(S) == {t \in ObjVariants(S) : OptSet(t) \subseteq DOMAIN t.as}

Wrap1(S) == {TList(e) : e \in S} \cup {TSet(e) : e \in S} \cup {TMap(e) : e \in S}
              \cup {TTup(es) : es \in SeqsUpTo(S, 2)} \cup ObjTypes(S)

U0 == Leaf7
\* attribute names that need normalization (eacute), JSON escaping (ctl = U+001F, dq = a double quote) or contain a space (sp)
OddNames == {TObjOpt([ctl |-> TStr, a |-> TNum], <<"ctl">>), TObjOpt([eacute |-> TStr], <<"eacute">>), TObj([eacute |-> TStr]), TObjOpt([dq |-> TBool, sp |-> TNum], <<"dq", "sp">>),
             TObj([ctl |-> TNum]), TObjOpt([a |-> TStr, sp |-> TNum], <<"sp">>), TList(TObjOpt([ctl |-> TStr], <<"ctl">>))}
U1 == U0 \cup Wrap1(U0) \cup OddNames
\* selected depth-2 types: every U1 type wrapped once more in a single-slot constructor,
\* plus pairs around a fixed sibling so that differences at depth 2 sit beside equal parts
Wrap2(S) == {TList(e) : e \in S} \cup {TSet(e) : e \in S} \cup {TMap(e) : e \in S}
              \cup {TTup(<<e>>) : e \in S} \cup {TTup(<<TStr, e>>) : e \in S}
              \cup {TObj([a |-> e]) : e \in S} \cup {TObjOpt([a |-> e, b |-> TNum], <<"b">>) : e \in S}
\* selected depth-3 types: optional attributes reachable only through two further constructors
Inner3 == {TObjOpt([a |-> TStr, b |-> TNum], <<"a">>), TObjOpt([a |-> TStr], <<"a">>), TObj([a |-> TStr])}
\* objects whose attributes are themselves objects / tuples with several members next to a plain sibling: a conformance walk has to
\* come back from a nested structure (matching, placeholder-matched, or mismatching) to the attributes / elements that follow it
NestInner == {TObj([x |-> TDyn, y |-> TDyn]), TObj([x |-> TNum, y |-> TBool]), TObj([x |-> TNum, y |-> TStr]), TObjOpt([x |-> TNum, y |-> TBool], <<"y">>), TObj([x |-> TNum]),
              TTup(<<TDyn, TDyn>>), TTup(<<TNum, TBool>>)}
Nest == {TObj([a |-> i, b |-> s]) : i \in NestInner, s \in {TStr, TNum}} \cup {TTup(<<i, s>>) : i \in NestInner, s \in {TStr, TNum}}
        \cup {TObj([a |-> i, b |-> j]) : i \in {TObj([x |-> TDyn, y |-> TDyn]), TObj([x |-> TNum, y |-> TBool])}, j \in {TObj([x |-> TDyn, y |-> TDyn]), TObj([x |-> TStr, y |-> TBool])}}
U3 == Wrap2(Wrap2(Inner3)) \cup Nest
U2 == U1 \cup Wrap2(U1 \ U0) \cup U3

\* ---- contract rules.  T(i) is the abstract type of definition i.
RuleNamesC07 == {"Echo", "HasDynIff", "EqRefl", "StripIs", "StripIdem", "JsonRoundTrip", "JsonNoPanic",
                 "PairNoPanic", "EqIff", "ConfIff", "NonConfReportsError", "StripEqIff"}

ToneFailed(e, t) ==
  {r \in {"HasDynIff", "EqRefl", "StripIs", "StripIdem", "JsonRoundTrip", "JsonNoPanic"} :
     ~ CASE r = "HasDynIff" -> e.hasdyn = HasDyn(t)
         [] r = "EqRefl" -> e.eqself
         [] r = "StripIs" -> TEquals(e.strip, StripOpt(t))
         [] r = "StripIdem" -> TEquals(e.strip2, e.strip) /\ e.stripeq
         [] r = "JsonNoPanic" -> (e.json.ok \/ e.json.fail # "panic")
         [] r = "JsonRoundTrip" -> (HasCapsule(t) \/ (e.json.ok /\ TEquals(e.json.t, t) /\ e.json.eq /\ e.json.eqr
                                                       \* the description kept from the first pass over all types, decoded now
                                                       /\ (Has(e, "json2") => e.json2.ok /\ TEquals(e.json2.t, t) /\ e.json2.eq /\ e.json2.eqr)))}

PairFailed(e, a, b) ==
  IF Has(e, "panic") THEN {"PairNoPanic"} ELSE
  {r \in {"EqIff", "ConfIff", "StripEqIff"} :
     ~ CASE r = "EqIff" -> e.eq = TEquals(a, b)
         [] r = "ConfIff" -> (e.nerr = 0) = Conforms(a, b)
         [] r = "StripEqIff" -> e.seq = TEquals(StripOpt(a), StripOpt(b))}
=============================================================================
