----------------------------- MODULE WalkTrace ------------------------------
EXTENDS Walk, Json
Trace == ndJsonDeserialize(IOEnv.VTRACE)
VARIABLES l, cnt
Init == l = 1 /\ cnt = [events |-> 0, nontrivial |-> 0, walks |-> 0, applies |-> 0, repls |-> 0]
Failed(e) == CASE e.ev = "walk" -> WalkFailed(e) [] e.ev = "apply" -> ApplyFailed(e) [] e.ev = "repl" -> ReplFailed(e)
Next == /\ l <= Len(Trace)
        /\ LET e == Trace[l] IN
           /\ \A x \in Failed(e) \cup Reread(e) : PrintT(<<"VIOL", l, x>>)
           /\ cnt' = [cnt EXCEPT !.events = @ + 1,
                       !.walks = @ + (IF e.ev = "walk" THEN 1 ELSE 0), !.applies = @ + (IF e.ev = "apply" THEN 1 ELSE 0),
                       !.repls = @ + (IF e.ev = "repl" THEN 1 ELSE 0),
                       !.nontrivial = @ + (IF (e.ev = "walk" /\ Len(e.visits) > 1) \/ (e.ev = "apply" /\ e.r.ok /\ e.p # <<>>) \/ e.ev = "repl" THEN 1 ELSE 0)]
        /\ l' = l + 1
        /\ (l = Len(Trace) => PrintT(<<"DONE", l, cnt'>>))
=============================================================================
