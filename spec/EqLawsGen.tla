----------------------------- MODULE EqLawsGen ------------------------------
EXTENDS EqLaws, Json
\* numbers: lattice, infinities, landmarks around width limits, and decimal texts that the
\* harness parses at several precisions (53-bit, 64-bit, 512-bit)
NumGroup == {K(TNum, n) : n \in Nums} \cup {Null(TNum)}
   \cup {K(TNum, [lm |-> x]) : x \in {"i64max", "i64maxp", "u64max", "u64maxp", "f64int", "f64intp", "e30", "tenth", "third"}}
   \cup {K(TNum, [dec |-> d]) : d \in {"1/10", "10000158385/100000000000", "1/3", "12345678901", "12345678902", "24691357803/2",
                                       "100000000000000000000000", "12345678901234567890123", "3/10", "5/2", "9007199254740993"}}
GTypes == IF Thorough THEN VT ELSE PrimTypes \cup VT1 \cup TakeN(VT2, 6)
GroupOf(t) == IF t.k = "number" THEN NumGroup ELSE TakeN(AllVals(t), IF Thorough THEN 40 ELSE 24)
TSeq == SetToSeq(GTypes)
\* cross-type group: one value of each type, nulls of several types, DynamicVal-free
Mixed == {CHOOSE v \in Vals(t, W) : TRUE : t \in PrimTypes \cup VT1} \cup {Null(t) : t \in PrimTypes \cup TakeN(VT1, 4)}
\* strings, keys and attribute names that have non-normalized spellings (with and without combining marks); the harness builds each
\* from its normalized and from a non-normalized spelling
NormStrs == {StrV(<<"eacute">>), StrV(<<"omega">>), StrV(<<"hangul">>), StrV(<<"a", "eacute">>), StrV(<<"hangul", "a">>), StrV(<<"omega", "b">>), StrV(<<"a">>)}
NormVals == NormStrs \cup {SeqV(TList(TStr), <<s>>) : s \in TakeN(NormStrs, 3)}
            \cup {MapV(TMap(TStr), [omega |-> StrV(<<"hangul">>)]), MapV(TMap(TStr), [eacute |-> StrV(<<"a">>)]),
                  MapV(TObj([eacute |-> TStr]), [eacute |-> StrV(<<"eacute">>)]), MapV(TObj([omega |-> TStr, a |-> TStr]), [omega |-> StrV(<<"a">>), a |-> StrV(<<"omega">>)])}
Groups == [i \in 1..Len(TSeq) |-> [k |-> "group", vals |-> SetToSeq(GroupOf(TSeq[i]))]] \o <<[k |-> "group", vals |-> SetToSeq(Mixed)], [k |-> "group", vals |-> SetToSeq(NormVals)]>>
\* set construction inputs: sequences (with repeats) of up to 3 members, per set type
SetInputs(t) == LET M == TakeN(Members_(t.e, W), 4) IN SeqsUpTo(M, 3) \ {<<>>}
SetTypes == {t \in GTypes : t.k = "set"}
BigNums == {K(TNum, [lm |-> x]) : x \in {"i64maxp", "u64maxp", "f64int", "i64max", "f32maxp"}} \cup {NumV(2)}
Perms == UNION {{[k |-> "setperm", ty |-> t, input |-> s] : s \in SetInputs(t)} : t \in SetTypes}
         \cup {[k |-> "setperm", ty |-> TSet(TStr), input |-> s] : s \in {<<x, x>> : x \in NormStrs} \cup {<<x, y, x>> : x \in NormStrs, y \in {StrV(<<"b">>)}}}
         \* numbers tied in value but not equal for cty (one decimal held as a float64 and that float64 carried at 512 bits; at 24 and 64 bits),
         \* next to ordinary members: the set holds both, in an order that depends on its members only
         \cup {[k |-> "setperm", ty |-> TSet(TNum), input |-> <<K(TNum, [dec |-> d]), K(TNum, [dec |-> d])>> \o rest, reps |-> <<r1, r2>> \o [i \in 1..Len(rest) |-> 0]]
                : d \in {"1/10", "1/3", "7/5"}, r1 \in {1, 3}, r2 \in {4, 5}, rest \in {<<>>, <<NumV(4)>>, <<NumV(0), NumV(8)>>}}
         \cup {[k |-> "setperm", ty |-> TSet(TNum), input |-> s] : s \in {<<x, x>> : x \in BigNums} \cup {<<x, y, x>> : x \in BigNums, y \in {NumV(4)}}}
ASSUME ndJsonSerialize(IOEnv.VOUT, Groups \o SetToSeq(Perms))
ASSUME PrintT(<<"GEN", Len(Groups) + Cardinality(Perms)>>)
VARIABLE x
Init == x = 0
Next == UNCHANGED x
=============================================================================
