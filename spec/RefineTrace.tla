---------------------------- MODULE RefineTrace -----------------------------
(* Trace validation of recorded RefinementBuilder behaviours against Refine.  *)
(* Events: rstart (orig, candidates, Includes answers) then one rcall per     *)
(* builder call with the projected NewValue() and Includes answers.           *)
EXTENDS Refine, Json
Trace == ndJsonDeserialize(IOEnv.VTRACE)
VARIABLES l, cnt
tvars == <<l, cnt, orig, r, said, status>>

\* answers of Range().Includes per candidate are sound for the model range
InclFailed(t, rr, cands, incl, known) ==
  {x \in {"C05.NeverExcludesAdmitted", "C05.NeverAdmitsExcluded"} :
     \E i \in 1..Len(cands) :
        LET c == cands[i]
            inm == IF known.st = "unk" THEN InModel(t, rr, c) ELSE Admits(known, c) IN
        \/ (x = "C05.NeverExcludesAdmitted" /\ incl[i] = "F" /\ inm)
        \/ (x = "C05.NeverAdmitsExcluded" /\ incl[i] = "T" /\ ~inm)}

ValFailed(e, o, rr) ==   \* o: orig; rr: model range after the call
  LET v == e.val IN
  (IF TEquals(v.ty, o.ty) THEN {} ELSE {"C05.TypeUnchanged"})
  \cup (IF v.mk = o.mk THEN {} ELSE {"C04.RefineKeepsMarks"})
  \cup (IF ~WellFormed(v) THEN {"C06.WellFormed"} ELSE {})
  \cup (IF o = DynVal THEN (IF UnmarkDeep(v) = DynVal THEN {} ELSE {"C05.DynamicIgnores"})
        ELSE IF o.st # "unk" THEN (IF UnmarkDeep(v) = UnmarkDeep(o) THEN {} ELSE {"C05.KnownUnchanged"})
        ELSE IF v.st = "unk" THEN (IF v.rf = rr THEN {} ELSE {"C05.ExactRange"})
        ELSE \* collapsed to a known / null value: it must admit exactly what the range admitted
             (IF \A c \in Cands(o.ty) : Admits(v, c) <=> InModel(o.ty, rr, c) THEN {} ELSE {"C05.CollapseExact"}))
  \cup (IF Has(e, "incl") THEN InclFailed(o.ty, rr, e.cands, e.incl, UnmarkDeep(v)) ELSE {})

Init == l = 1 /\ cnt = [events |-> 0, nontrivial |-> 0, rejected |-> 0, behaviours |-> 0]
        /\ orig = DynVal /\ r = NoRf /\ said = <<>> /\ status = "none"

Start(e) ==
  /\ orig' = UnmarkDeep(e.orig) /\ r' = InitRange(e.orig) /\ said' = <<>> /\ status' = "open"
  /\ \A x \in (IF ~WellFormed(e.orig) THEN {"C06.WellFormed"} ELSE {})
            \cup InclFailed(e.orig.ty, InitRange(e.orig), e.cands, e.incl, UnmarkDeep(e.orig)) : PrintT(<<"VIOL", l, x>>)

RECURSIVE StartOf(_)
StartOf(i) == IF Trace[i].ev = "rstart" THEN i ELSE StartOf(i - 1)

Call(e) ==
  LET call == e.call
      misuse == \/ call.c = "Refine"
                \/ (orig # DynVal /\ ~Applies(call, orig.ty))
                \/ (orig.st = "null" /\ call.c \notin {"NotNull", "Null"})   \* bounds on a known null: not judged
      contra == ~misuse /\ orig # DynVal /\ Contradictory(orig, r, call)
      rr == IF orig # DynVal /\ ~misuse /\ ~contra THEN NextRange(orig, r, call) ELSE r
  IN
  /\ (status # "open" => PrintT(<<"INCON", l, "CallAfterRejection">>))
  /\ LET fails ==
           IF misuse THEN {}     \* API misuse is recorded, not judged
           ELSE IF e.panic THEN (IF contra THEN {} ELSE {"C05.AcceptConsistent"})
           ELSE (IF contra THEN {"C05.RejectContradiction"} ELSE {})
                \cup (IF Has(e, "val") THEN ValFailed(e @@ [cands |-> Trace[StartOf(l)].cands], orig, rr)
                      ELSE {"C05.NewValuePanics"})
     IN \A x \in fails : PrintT(<<"VIOL", l, x>>)
  /\ r' = rr /\ said' = Append(said, call)
  /\ status' = IF e.panic THEN "closed" ELSE "open"
  /\ UNCHANGED orig

Next == /\ l <= Len(Trace)
        /\ LET e == Trace[l] IN
           /\ IF e.ev = "rstart" THEN Start(e) ELSE Call(e)
           /\ cnt' = [cnt EXCEPT !.events = @ + 1,
                                 !.behaviours = @ + (IF e.ev = "rstart" THEN 1 ELSE 0),
                                 !.rejected = @ + (IF e.ev = "rcall" /\ e.panic THEN 1 ELSE 0),
                                 !.nontrivial = @ + (IF e.ev = "rcall" /\ ~e.panic THEN 1 ELSE 0)]
        /\ l' = l + 1
        /\ (l = Len(Trace) => PrintT(<<"DONE", l, cnt'>>))
=============================================================================
