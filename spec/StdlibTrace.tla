---------------------------- MODULE StdlibTrace -----------------------------
EXTENDS Stdlib, Json
Trace == ndJsonDeserialize(IOEnv.VTRACE)
VARIABLES l, cnt
Prefix(e) == IF Has(e, "prop") THEN e.prop ELSE "C12"
Premise(e) ==
  CASE e.ev = "call" -> TRUE
    [] e.ev = "pair" /\ e.rel = "weak" -> WeakPremise(e)
    [] e.ev = "pair" /\ e.rel = "unmark" -> MarkPremise(e)
Failed(e) ==
  CASE e.ev = "call" -> FnFailed(e) \cup (IF Len(e.rs) = 1 THEN {} ELSE {"C20.Pure"}) \cup (IF Len(e.rr) = 1 THEN {} ELSE {"C20.RepInvariant"})
    [] e.ev = "pair" /\ e.rel = "weak" -> WeakFailed(e, Prefix(e))
    [] e.ev = "pair" /\ e.rel = "unmark" -> MarkFailed(e)
Nontrivial(e) ==
  CASE e.ev = "call" -> FnNontrivial(e)
    [] e.ev = "pair" /\ e.rel = "weak" -> WeakNontrivial(e)
    [] e.ev = "pair" /\ e.rel = "unmark" -> MarkNontrivial(e)
Init == l = 1 /\ cnt = [events |-> 0, nontrivial |-> 0, incon |-> 0]
Next == /\ l <= Len(Trace)
        /\ LET e == Trace[l]
               p == Premise(e) IN
           /\ (~p /\ ~BuiltBreaks(e) => PrintT(<<"INCON", l, "Premise">>))
           /\ (~p /\ BuiltBreaks(e) => PrintT(<<"VIOL", l, Prefix(e) \o ".PlaceholderAdmitsReplacedPart">>))
           /\ (p => \A r \in Failed(e) : PrintT(<<"VIOL", l, r>>))
           /\ cnt' = [cnt EXCEPT !.events = @ + 1, !.incon = @ + (IF p THEN 0 ELSE 1), !.nontrivial = @ + (IF p /\ Nontrivial(e) THEN 1 ELSE 0)]
        /\ l' = l + 1
        /\ (l = Len(Trace) => PrintT(<<"DONE", l, cnt'>>))
=============================================================================
