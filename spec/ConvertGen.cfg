INIT Init
NEXT Next
