------------------------------- MODULE TextRef ------------------------------
(***************************************************************************)
(* Reference semantics of the number, string, formatting and encoding      *)
(* functions of the standard library on wholly known arguments.    [C14]   *)
(*                                                                         *)
(* Strings are sequences of abstract characters (one per code point of the *)
(* stored form).  Positions are counted in GRAPHEME CLUSTERS: Clusters(s)  *)
(* implements the Unicode segmentation rules that apply to the alphabet    *)
(* (GB3 CR x LF, GB4/5 break around controls, GB9 x Extend|ZWJ, GB11       *)
(* pictograph ZWJ sequences, GB12/13 regional-indicator pairs).            *)
(* Numbers are exact rationals; a result that is not exactly representable *)
(* on the specification's numbers is UNDEF (not judged).                   *)
(* TRef(fn, a) is OKV(v), REJ or UNDEF as in StdlibRef.                    *)
(***************************************************************************)
EXTENDS StdlibRef

(***************************************************************************)
(* Characters                                                              *)
(***************************************************************************)
Ctl     == {"CR", "LF", "TAB"}
ExtOnly == {"acute", "tone"}            \* Grapheme_Extend (combining acute, emoji modifier)
ExtZ    == ExtOnly \cup {"zwj"}
Pict    == {"wave"}                     \* Extended_Pictographic
Spaces  == {" ", "LF", "CR", "TAB"}
Lowers  == <<"a", "b", "c", "d", "e", "f", "g", "h", "m", "n", "o", "q", "s", "t", "u", "v", "x", "z">>
Uppers  == <<"A", "B", "C", "D", "E", "F", "G", "H", "M", "N", "O", "Q", "S", "T", "U", "V", "X", "Z">>
IdxIn(c, S) == IF \E i \in 1..Len(S) : S[i] = c THEN CHOOSE i \in 1..Len(S) : S[i] = c ELSE 0
UpperC(c) == IF IdxIn(c, Lowers) > 0 THEN Uppers[IdxIn(c, Lowers)] ELSE c
LowerC(c) == IF IdxIn(c, Uppers) > 0 THEN Lowers[IdxIn(c, Uppers)] ELSE c
IsLetterC(c) == IdxIn(c, Lowers) > 0 \/ IdxIn(c, Uppers) > 0
IsDigitC(c)  == IdxIn(c, Digits) > 0
\* characters the reference knows (anything else makes a call UNDEF)
KnownChars == {Digits[i] : i \in 1..10} \cup {Lowers[i] : i \in 1..Len(Lowers)} \cup {Uppers[i] : i \in 1..Len(Uppers)}
              \cup Ctl \cup ExtZ \cup Pict \cup {"ri", " ", "-", "+", ",", ".", "%", ":", "_", "/", "[", "]", "{", "}", "\"", "\\", "#", "<", "(", ")", "'", "=", "!", "|"}
KnownStr(s) == \A i \in 1..Len(s) : s[i] \in KnownChars

(***************************************************************************)
(* Grapheme clusters                                                       *)
(***************************************************************************)
RECURSIVE RiRun(_, _)
RiRun(s, j) == IF j >= 1 /\ s[j] = "ri" THEN 1 + RiRun(s, j - 1) ELSE 0      \* regional indicators ending at j
RECURSIVE PictExt(_, _)
PictExt(s, j) == j >= 1 /\ (s[j] \in Pict \/ (s[j] \in ExtOnly /\ PictExt(s, j - 1)))
BreakBefore(s, i) ==      \* i in 2..Len(s)
  IF s[i - 1] = "CR" /\ s[i] = "LF" THEN FALSE
  ELSE IF s[i - 1] \in Ctl \/ s[i] \in Ctl THEN TRUE
  ELSE IF s[i] \in ExtZ THEN FALSE
  ELSE IF s[i] \in Pict /\ s[i - 1] = "zwj" /\ PictExt(s, i - 2) THEN FALSE
  ELSE IF s[i] = "ri" /\ s[i - 1] = "ri" /\ RiRun(s, i - 1) % 2 = 1 THEN FALSE
  ELSE TRUE
RECURSIVE ClustersFrom(_, _, _)
ClustersFrom(s, start, i) ==     \* clusters of s[start..]; i scans for the next boundary
  IF start > Len(s) THEN <<>>
  ELSE IF i > Len(s) THEN <<SubSeq(s, start, Len(s))>>
  ELSE IF BreakBefore(s, i) THEN <<SubSeq(s, start, i - 1)>> \o ClustersFrom(s, i, i + 1)
  ELSE ClustersFrom(s, start, i + 1)
Clusters(s) == ClustersFrom(s, 1, 2)
NClusters(s) == Len(Clusters(s))
TakeCl(s, n) == LET c == Clusters(s) IN ConcatAll(SubSeq(c, 1, IF n < Len(c) THEN n ELSE Len(c)))
DropCl(s, n) == LET c == Clusters(s) IN ConcatAll(SubSeq(c, n + 1, Len(c)))

(***************************************************************************)
(* Sequence helpers                                                        *)
(***************************************************************************)
TakeS(s, n) == SubSeq(s, 1, n)
DropS(s, n) == SubSeq(s, n + 1, Len(s))
IsPre(p, s) == Len(p) <= Len(s) /\ SubSeq(s, 1, Len(p)) = p
IsSuf(p, s) == Len(p) <= Len(s) /\ SubSeq(s, Len(s) - Len(p) + 1, Len(s)) = p
RECURSIVE FindAt(_, _, _)
FindAt(s, sep, i) == IF i + Len(sep) - 1 > Len(s) THEN 0
                     ELSE IF SubSeq(s, i, i + Len(sep) - 1) = sep THEN i ELSE FindAt(s, sep, i + 1)
RECURSIVE SplitBy(_, _)
SplitBy(s, sep) == LET i == FindAt(s, sep, 1) IN
  IF i = 0 THEN <<s>> ELSE <<TakeS(s, i - 1)>> \o SplitBy(DropS(s, i + Len(sep) - 1), sep)
RECURSIVE ReplAll(_, _, _)
ReplAll(s, old, new) == LET i == FindAt(s, old, 1) IN
  IF i = 0 THEN s ELSE TakeS(s, i - 1) \o new \o ReplAll(DropS(s, i + Len(old) - 1), old, new)
PlainStr(s) == \A i \in 1..Len(s) : s[i] \in {"a", "b", "c"}
LiteralPat(p) == Len(p) >= 1 /\ PlainStr(p)
RECURSIVE TrimL(_, _)
TrimL(s, C) == IF s # <<>> /\ s[1] \in C THEN TrimL(Tail(s), C) ELSE s
TrimR(s, C) == RevSeq(TrimL(RevSeq(s), C))
RECURSIVE JoinWith(_, _)
JoinWith(ss, sep) == IF ss = <<>> THEN <<>> ELSE IF Len(ss) = 1 THEN ss[1] ELSE ss[1] \o sep \o JoinWith(Tail(ss), sep)
Rep(c, n) == [i \in 1..(IF n > 0 THEN n ELSE 0) |-> c]
CharSet(s) == {s[i] : i \in 1..Len(s)}

(***************************************************************************)
(* Numbers <-> text                                                        *)
(***************************************************************************)
PlainQ(n) == Has(n, "q") /\ AbsI(n.q) < 4000000
\* exact decimal text of named numbers that need more than 53 bits (they print in full, below the 10^21 switch to exponents)
LmText == [f64intp |-> <<"9", "0", "0", "7", "1", "9", "9", "2", "5", "4", "7", "4", "0", "9", "9", "3">>, u64max |-> <<"1", "8", "4", "4", "6", "7", "4", "4", "0", "7", "3", "7", "0", "9", "5", "5", "1", "6", "1", "5">>, i64max |-> <<"9", "2", "2", "3", "3", "7", "2", "0", "3", "6", "8", "5", "4", "7", "7", "5", "8", "0", "7">>, almost1 |-> <<"0", ".", "9", "9", "9", "9", "9", "9", "9", "9", "9", "9", "9", "9", "9", "9", "9", "9", "9", "9", "9", "9">>, malmost3 |-> <<"-", "2", ".", "9", "9", "9", "9", "9", "9", "9", "9", "9", "9", "9", "9", "9", "9", "9", "9", "9", "9", "9", "9">>, u64maxpp |-> <<"1", "8", "4", "4", "6", "7", "4", "4", "0", "7", "3", "7", "0", "9", "5", "5", "1", "6", "1", "7">>]
\* the same numbers as %v prints them (the general format switches to an exponent from 10^6 on and keeps every digit)
LmTextG == [f64intp |-> <<"9", ".", "0", "0", "7", "1", "9", "9", "2", "5", "4", "7", "4", "0", "9", "9", "3", "e", "+", "1", "5">>, u64max |-> <<"1", ".", "8", "4", "4", "6", "7", "4", "4", "0", "7", "3", "7", "0", "9", "5", "5", "1", "6", "1", "5", "e", "+", "1", "9">>, i64max |-> <<"9", ".", "2", "2", "3", "3", "7", "2", "0", "3", "6", "8", "5", "4", "7", "7", "5", "8", "0", "7", "e", "+", "1", "8">>, almost1 |-> <<"0", ".", "9", "9", "9", "9", "9", "9", "9", "9", "9", "9", "9", "9", "9", "9", "9", "9", "9", "9", "9", "9">>, malmost3 |-> <<"-", "2", ".", "9", "9", "9", "9", "9", "9", "9", "9", "9", "9", "9", "9", "9", "9", "9", "9", "9", "9", "9", "9">>, u64maxpp |-> <<"1", ".", "8", "4", "4", "6", "7", "4", "4", "0", "7", "3", "7", "0", "9", "5", "5", "1", "6", "1", "7", "e", "+", "1", "9">>]
NumTextG(n) == IF Has(n, "q") THEN QText(n.q) ELSE LmTextG[n.lm]
NumTextable(n) == PlainQ(n) \/ (Has(n, "lm") /\ n.lm \in DOMAIN LmText)
NumText(n) == IF Has(n, "q") THEN QText(n.q) ELSE LmText[n.lm]
LetterVals == <<10, 11, 12, 13, 14, 15, 16, 17, 22, 23, 24, 26, 28, 29, 30, 31, 33, 35>>       \* digit values of Lowers in bases up to 36
DigitVal(c) == IF IsDigitC(c) THEN IdxIn(c, Digits) - 1
               ELSE IF IdxIn(LowerC(c), Lowers) > 0 THEN LetterVals[IdxIn(LowerC(c), Lowers)] ELSE 99
RECURSIVE DigitsVal(_, _, _)
DigitsVal(s, base, acc) == IF s = <<>> THEN acc ELSE DigitsVal(Tail(s), base, acc * base + DigitVal(s[1]))

WholeOf(v) == v.v.q \div 4                 \* for IsWhole(v)
SmallNum(v) == IsNumK(v) /\ IsSmallN(v.v)
NumOfRat(n, d) == NumK(Rat(n, d))

(***************************************************************************)
(* printf-like formatting.  The format string is parsed by the recursive   *)
(* operator FmtRun that mirrors the documented grammar                     *)
(*     % flags width .precision [argidx] verb                              *)
(* and threads the "next argument" and "highest argument used" counters.   *)
(* Result: [ok, out] or [ok |-> FALSE] or [undef |-> TRUE].                *)
(***************************************************************************)
FlagChars == {"0", "#", "-", "+", " "}
RECURSIVE ScanFlags(_, _, _)
ScanFlags(f, i, acc) == IF i <= Len(f) /\ f[i] \in FlagChars THEN ScanFlags(f, i + 1, acc \cup {f[i]}) ELSE [i |-> i, fl |-> acc]
RECURSIVE ScanNum(_, _, _, _)
ScanNum(f, i, acc, n) == IF i <= Len(f) /\ IsDigitC(f[i]) /\ n < 4 THEN ScanNum(f, i + 1, acc * 10 + DigitVal(f[i]), n + 1) ELSE [i |-> i, v |-> acc, n |-> n]

PadTo(vb, s) ==     \* width in grapheme clusters; "-" pads on the right; "0" pads with zeros
  IF vb.w < 0 \/ NClusters(s) >= vb.w THEN s
  ELSE LET pad == Rep(IF "0" \in vb.fl THEN "0" ELSE " ", vb.w - NClusters(s)) IN
       IF "-" \in vb.fl THEN s \o pad ELSE pad \o s

\* %d on a whole number, Go integer formatting: sign flags, zero padding between sign and digits
FmtInt(vb, k) ==
  LET sign == IF k < 0 THEN <<"-">> ELSE IF "+" \in vb.fl THEN <<"+">> ELSE IF " " \in vb.fl THEN <<" ">> ELSE <<>>
      digs == NatDigits(AbsI(k))
      body == sign \o digs IN
  IF vb.w < 0 \/ Len(body) >= vb.w THEN body
  ELSE IF "-" \in vb.fl THEN body \o Rep(" ", vb.w - Len(body))
  ELSE IF "0" \in vb.fl THEN sign \o Rep("0", vb.w - Len(body)) \o digs
  ELSE Rep(" ", vb.w - Len(body)) \o body

RECURSIVE JText(_)
EscC(c) == CASE c = "\"" -> <<"\\", "\"">> [] c = "\\" -> <<"\\", "\\">> [] c = "LF" -> <<"\\", "n">> [] c = "CR" -> <<"\\", "r">>
             [] c = "TAB" -> <<"\\", "t">> [] c = "<" -> <<"\\", "u", "0", "0", "3", "c">> [] OTHER -> <<c>>
QuoteS(s) == <<"\"">> \o ConcatAll([i \in 1..Len(s) |-> EscC(s[i])]) \o <<"\"">>
JText(v) ==
  IF v.st = "null" THEN <<"n", "u", "l", "l">>
  ELSE CASE v.ty.k = "bool" -> IF BoolOf(v) THEN <<"t", "r", "u", "e">> ELSE <<"f", "a", "l", "s", "e">>
         [] v.ty.k = "number" -> NumText(v.v)
         [] v.ty.k = "string" -> QuoteS(StrOf(v))
         [] v.ty.k \in {"list", "tuple"} -> <<"[">> \o JoinWith([i \in 1..Len(Elems(v)) |-> JText(Elems(v)[i])], <<",">>) \o <<"]">>
         [] v.ty.k \in {"map", "object"} ->
              LET ks == SortedKeys(Attrs(v)) IN
              <<"{">> \o JoinWith([i \in 1..Len(ks) |-> <<"\"", ks[i], "\"", ":">> \o JText(Attrs(v)[ks[i]])], <<",">>) \o <<"}">>
RECURSIVE JTextable(_)
JTextable(v) ==      \* the reference can spell v as JSON text
  v.st = "null" \/ (v.st = "k" /\ v.mk = <<>> /\
    CASE v.ty.k = "bool" -> TRUE
      [] v.ty.k = "number" -> NumTextable(v.v)
      [] v.ty.k = "string" -> KnownStr(StrOf(v))
      [] v.ty.k \in {"list", "tuple"} -> \A i \in 1..Len(Elems(v)) : JTextable(Elems(v)[i])
      [] v.ty.k \in {"map", "object"} -> \A n \in DOMAIN Attrs(v) : KeyRank(n) < 4 /\ JTextable(Attrs(v)[n])
      [] OTHER -> FALSE)

\* one verb applied to one argument: [ok, out] / REJ / UNDEF
FmtVerb(vb, arg) ==
  IF vb.mode \notin {"v", "t", "b", "d", "o", "x", "X", "e", "E", "f", "g", "G", "s", "q"} THEN REJ
  ELSE IF arg.st = "null" THEN (IF vb.mode = "v" THEN OKV(PadTo(vb, <<"n", "u", "l", "l">>)) ELSE REJ)
  ELSE IF arg.st # "k" THEN UNDEF
  ELSE CASE vb.mode = "v" ->
              IF "#" \in vb.fl THEN (IF JTextable(arg) THEN OKV(PadTo(vb, JText(arg))) ELSE UNDEF)
              ELSE IF arg.ty.k = "string" THEN OKV(PadTo(vb, StrOf(arg)))
              ELSE IF arg.ty.k = "number" THEN (IF NumTextable(arg.v) THEN OKV(PadTo(vb, NumTextG(arg.v))) ELSE UNDEF)
              ELSE IF JTextable(arg) THEN OKV(PadTo(vb, JText(arg))) ELSE UNDEF
         [] vb.mode = "t" ->
              IF arg.ty.k = "bool" THEN OKV(IF BoolOf(arg) THEN <<"t", "r", "u", "e">> ELSE <<"f", "a", "l", "s", "e">>)
              ELSE IF arg.ty.k = "string" THEN UNDEF ELSE REJ
         [] vb.mode = "d" ->
              IF arg.ty.k = "number" THEN (IF ~Has(arg.v, "q") THEN UNDEF ELSE IF arg.v.q % 4 # 0 THEN REJ
                                           ELSE IF "#" \in vb.fl \/ vb.p >= 0 THEN UNDEF ELSE OKV(FmtInt(vb, arg.v.q \div 4)))
              ELSE IF arg.ty.k = "string" THEN UNDEF ELSE REJ
         [] vb.mode \in {"s", "q"} ->
              LET s0 == IF arg.ty.k = "string" THEN StrOf(arg)
                        ELSE IF arg.ty.k = "bool" THEN (IF BoolOf(arg) THEN <<"t", "r", "u", "e">> ELSE <<"f", "a", "l", "s", "e">>)
                        ELSE IF arg.ty.k = "number" /\ NumTextable(arg.v) THEN NumText(arg.v) ELSE <<"?">>
                  s1 == IF vb.p > 0 THEN TakeCl(s0, vb.p) ELSE s0 IN
              IF arg.ty.k \notin {"string", "bool", "number"} THEN REJ
              ELSE IF s0 = <<"?">> \/ ~KnownStr(s0) \/ vb.p = 0 THEN UNDEF     \* "%.0s": the documentation and the code disagree on nothing we can cite
              ELSE OKV(PadTo(vb, IF vb.mode = "s" THEN s1 ELSE QuoteS(s1)))
         [] OTHER -> UNDEF          \* %b %o %x %X %e %E %f %g %G: outside the reference

RECURSIVE FmtRun(_, _, _, _, _, _)
FmtRun(f, a, i, next, hi, out) ==
  IF i > Len(f) THEN
     (IF hi < Len(a) THEN REJ ELSE OKV(out))                      \* extraneous arguments are an error
  ELSE IF f[i] # "%" THEN FmtRun(f, a, i + 1, next, hi, Append(out, f[i]))
  ELSE IF i = Len(f) THEN REJ                                      \* dangling %
  ELSE IF f[i + 1] = "%" THEN FmtRun(f, a, i + 2, next, hi, Append(out, "%"))
  ELSE LET fs == ScanFlags(f, i + 1, {})
           wd == IF fs.i <= Len(f) /\ IsDigitC(f[fs.i]) /\ f[fs.i] # "0" THEN ScanNum(f, fs.i, 0, 0) ELSE [i |-> fs.i, v |-> -1, n |-> 0]
           pr == IF wd.i <= Len(f) /\ f[wd.i] = "." THEN ScanNum(f, wd.i + 1, 0, 0) ELSE [i |-> wd.i, v |-> -1, n |-> 0]
           hasIdx == pr.i <= Len(f) /\ f[pr.i] = "["
           ix == IF hasIdx /\ pr.i + 1 <= Len(f) /\ IsDigitC(f[pr.i + 1]) /\ f[pr.i + 1] # "0" THEN ScanNum(f, pr.i + 1, 0, 0) ELSE [i |-> pr.i, v |-> -1, n |-> 0]
           idxOk == ~hasIdx \/ (ix.n > 0 /\ ix.i <= Len(f) /\ f[ix.i] = "]")
           mi == IF hasIdx THEN ix.i + 1 ELSE pr.i
       IN
       IF ~idxOk \/ mi > Len(f) \/ ~IsLetterC(f[mi]) THEN (IF mi <= Len(f) /\ ~KnownStr(<<f[mi]>>) THEN UNDEF ELSE REJ)
       ELSE IF wd.n >= 4 \/ pr.n >= 4 \/ ix.n >= 4 THEN UNDEF
       ELSE LET argn == IF hasIdx THEN ix.v ELSE next
                vb == [fl |-> fs.fl, w |-> wd.v, p |-> pr.v, mode |-> f[mi]]
                hi2 == IF argn > hi THEN argn ELSE hi IN
            IF argn > Len(a) THEN REJ
            ELSE LET r == FmtVerb(vb, a[argn]) IN
                 IF Has(r, "undef") THEN UNDEF
                 ELSE IF ~r.ok THEN REJ
                 ELSE FmtRun(f, a, mi + 1, argn + 1, hi2, out \o r.val)
FormatRef(f, a) == IF ~KnownStr(f) THEN UNDEF ELSE FmtRun(f, a, 1, 1, 0, <<>>)

(***************************************************************************)
(* CSV (no quoted fields): records separated by LF or CR LF, fields by ",". *)
(***************************************************************************)
CsvLines(s) == SelectSeq([i \in 1..Len(SplitBy(s, <<"LF">>)) |->
                            LET ln == SplitBy(s, <<"LF">>)[i] IN IF ln # <<>> /\ ln[Len(ln)] = "CR" THEN TakeS(ln, Len(ln) - 1) ELSE ln],
                         LAMBDA ln : ln # <<>>)
CsvRef(s) ==
  IF ~KnownStr(s) \/ "\"" \in CharSet(s) \/ "CR" \in CharSet(ConcatAll(CsvLines(s))) THEN UNDEF
  ELSE LET ls == CsvLines(s) IN
  IF ls = <<>> THEN REJ
  ELSE LET hdr == SplitBy(ls[1], <<",">>) IN
       IF \E i, j \in 1..Len(hdr) : i < j /\ hdr[i] = hdr[j] THEN REJ
       ELSE IF \E i \in 1..Len(hdr) : hdr[i] = <<>> \/ \E j \in 1..Len(hdr[i]) : hdr[i][j] \notin {"a", "b", "c", " "} THEN UNDEF      \* attribute names the projection can spell
       ELSE IF \E r \in 2..Len(ls) : Len(SplitBy(ls[r], <<",">>)) # Len(hdr) THEN REJ
       ELSE LET nm(i) == JoinStr(hdr[i])
                names == {nm(i) : i \in 1..Len(hdr)}
                oty == TObj([n \in names |-> TStr])
                col(n) == CHOOSE i \in 1..Len(hdr) : nm(i) = n IN
            OKV(SeqV(TList(oty), [r \in 1..(Len(ls) - 1) |-> MapV(oty, [n \in names |-> StrV(SplitBy(ls[r + 1], <<",">>)[col(n)])])]))

(***************************************************************************)
(* jsondecode(jsonencode(v)): the JSON-implied form of v                   *)
(***************************************************************************)
RECURSIVE JImplied(_)
JImplied(v) ==
  IF v.st = "null" THEN Null(TDyn)
  ELSE CASE v.ty.k \in {"list", "tuple"} ->
              LET es == [i \in 1..Len(Elems(v)) |-> JImplied(Elems(v)[i])] IN SeqV(TTup([i \in 1..Len(es) |-> es[i].ty]), es)
         [] v.ty.k \in {"map", "object"} ->
              LET as == [n \in DOMAIN Attrs(v) |-> JImplied(Attrs(v)[n])] IN MapV(TObj([n \in DOMAIN as |-> as[n].ty]), as)
         [] OTHER -> v

(***************************************************************************)
(* Timestamps (strict RFC 3339, whole seconds), formatdate and timeadd.    *)
(* The calendar is computed by the specification itself: days-from-civil   *)
(* and civil-from-days over the proleptic Gregorian calendar.              *)
(***************************************************************************)
MonthNames == <<<<"J", "a", "n", "u", "a", "r", "y">>, <<"F", "e", "b", "r", "u", "a", "r", "y">>, <<"M", "a", "r", "c", "h">>, <<"A", "p", "r", "i", "l">>, <<"M", "a", "y">>, <<"J", "u", "n", "e">>, <<"J", "u", "l", "y">>, <<"A", "u", "g", "u", "s", "t">>, <<"S", "e", "p", "t", "e", "m", "b", "e", "r">>, <<"O", "c", "t", "o", "b", "e", "r">>, <<"N", "o", "v", "e", "m", "b", "e", "r">>, <<"D", "e", "c", "e", "m", "b", "e", "r">>>>
DayNames == <<<<"S", "u", "n", "d", "a", "y">>, <<"M", "o", "n", "d", "a", "y">>, <<"T", "u", "e", "s", "d", "a", "y">>, <<"W", "e", "d", "n", "e", "s", "d", "a", "y">>, <<"T", "h", "u", "r", "s", "d", "a", "y">>, <<"F", "r", "i", "d", "a", "y">>, <<"S", "a", "t", "u", "r", "d", "a", "y">>>>
IsLeap(y) == (y % 4 = 0 /\ y % 100 # 0) \/ y % 400 = 0
DaysIn(m, y) == IF m \in {1, 3, 5, 7, 8, 10, 12} THEN 31 ELSE IF m \in {4, 6, 9, 11} THEN 30 ELSE IF IsLeap(y) THEN 29 ELSE 28
DaysFromCivil(y0, m, d) ==
  LET y == IF m <= 2 THEN y0 - 1 ELSE y0
      era == y \div 400
      yoe == y - era * 400
      mp == (m + 9) % 12
      doy == (153 * mp + 2) \div 5 + d - 1
      doe == yoe * 365 + yoe \div 4 - yoe \div 100 + doy
  IN era * 146097 + doe - 719468
CivilFromDays(z0) ==
  LET z == z0 + 719468
      era == z \div 146097
      doe == z - era * 146097
      yoe == (doe - doe \div 1460 + doe \div 36524 - doe \div 146096) \div 365
      doy == doe - (365 * yoe + yoe \div 4 - yoe \div 100)
      mp == (5 * doy + 2) \div 153
      d == doy - (153 * mp + 2) \div 5 + 1
      m == IF mp < 10 THEN mp + 3 ELSE mp - 9
  IN [y |-> yoe + era * 400 + (IF m <= 2 THEN 1 ELSE 0), m |-> m, d |-> d]
Weekday(y, m, d) == (DaysFromCivil(y, m, d) + 4) % 7          \* 0 = Sunday; 1970-01-01 was a Thursday

DigAt(s, I) == \A i \in I : IsDigitC(s[i])
N2(s, i) == DigitVal(s[i]) * 10 + DigitVal(s[i + 1])
N4(s, i) == N2(s, i) * 100 + N2(s, i + 2)
\* [ok, y, mo, d, h, mi, s, off] (off: zone offset in minutes) / REJ / UNDEF
ParseTS(s) ==
  IF ~(\A i \in 1..Len(s) : s[i] \in KnownChars) THEN UNDEF
  ELSE IF Len(s) < 19 THEN REJ
  ELSE IF "." \in CharSet(s) \/ "," \in CharSet(s) \/ "t" \in CharSet(s) \/ "z" \in CharSet(s) \/ Len(s) \notin {20, 25} THEN UNDEF
  ELSE IF ~(DigAt(s, {1, 2, 3, 4, 6, 7, 9, 10, 12, 13, 15, 16, 18, 19}) /\ s[5] = "-" /\ s[8] = "-" /\ s[11] = "T" /\ s[14] = ":" /\ s[17] = ":") THEN REJ
  ELSE LET y == N4(s, 1) mo == N2(s, 6) d == N2(s, 9) h == N2(s, 12) mi == N2(s, 15) sc == N2(s, 18) IN
       IF mo < 1 \/ mo > 12 \/ d < 1 \/ d > DaysIn(mo, y) \/ h > 23 \/ mi > 59 \/ sc > 59 THEN REJ
       ELSE IF Len(s) = 20 THEN (IF s[20] = "Z" THEN [ok |-> TRUE, y |-> y, mo |-> mo, d |-> d, h |-> h, mi |-> mi, s |-> sc, off |-> 0] ELSE REJ)
       ELSE IF ~(s[20] \in {"+", "-"} /\ DigAt(s, {21, 22, 24, 25}) /\ s[23] = ":") THEN REJ
       ELSE IF N2(s, 21) > 23 \/ N2(s, 24) > 59 THEN REJ
       ELSE [ok |-> TRUE, y |-> y, mo |-> mo, d |-> d, h |-> h, mi |-> mi, s |-> sc,
             off |-> (IF s[20] = "-" THEN -1 ELSE 1) * (N2(s, 21) * 60 + N2(s, 24))]
Pad2(n) == IF n < 10 THEN <<"0">> \o NatDigits(n) ELSE NatDigits(n)
Pad4(n) == IF n < 10 THEN <<"0", "0", "0">> \o NatDigits(n) ELSE IF n < 100 THEN <<"0", "0">> \o NatDigits(n) ELSE IF n < 1000 THEN <<"0">> \o NatDigits(n) ELSE NatDigits(n)
ZoneText(off, colon) == LET a == AbsI(off) IN
  <<IF off < 0 THEN "-" ELSE "+">> \o Pad2(a \div 60) \o (IF colon THEN <<":">> ELSE <<>>) \o Pad2(a % 60)
FDLetters == {"Y", "M", "D", "E", "h", "H", "A", "a", "m", "s", "Z", "x", "T", "b", "d", "e", "y", "z"}
FDOther == {" ", "-", ":", "/", ",", ".", "'", "0", "1", "2"}
RECURSIVE RunLen(_, _, _)
RunLen(f, i, c) == IF i <= Len(f) /\ f[i] = c THEN 1 + RunLen(f, i + 1, c) ELSE 0
\* end (index of the closing quote) of a quoted literal that opens at i, or 0 when unterminated; '' inside is an escaped quote
RECURSIVE QuoteEnd(_, _)
QuoteEnd(f, j) == IF j > Len(f) THEN 0
                  ELSE IF f[j] # "'" THEN QuoteEnd(f, j + 1)
                  ELSE IF j + 1 <= Len(f) /\ f[j + 1] = "'" THEN QuoteEnd(f, j + 2)
                  ELSE j
RECURSIVE Unquote(_)
Unquote(r) == IF r = <<>> THEN <<>> ELSE IF r[1] = "'" THEN <<"'">> \o Unquote(SubSeq(r, 3, Len(r))) ELSE <<r[1]>> \o Unquote(Tail(r))
FDVerb(c, n, t) ==      \* the text of verb letter c repeated n times, or <<"?">> when invalid
  CASE c = "Y" -> IF n = 2 THEN Pad2(t.y % 100) ELSE IF n = 4 THEN Pad4(t.y) ELSE <<"?">>
    [] c = "M" -> IF n = 1 THEN NatDigits(t.mo) ELSE IF n = 2 THEN Pad2(t.mo) ELSE IF n = 3 THEN SubSeq(MonthNames[t.mo], 1, 3) ELSE IF n = 4 THEN MonthNames[t.mo] ELSE <<"?">>
    [] c = "D" -> IF n = 1 THEN NatDigits(t.d) ELSE IF n = 2 THEN Pad2(t.d) ELSE <<"?">>
    [] c = "E" -> IF n = 3 THEN SubSeq(DayNames[Weekday(t.y, t.mo, t.d) + 1], 1, 3) ELSE IF n = 4 THEN DayNames[Weekday(t.y, t.mo, t.d) + 1] ELSE <<"?">>
    [] c = "h" -> IF n = 1 THEN NatDigits(t.h) ELSE IF n = 2 THEN Pad2(t.h) ELSE <<"?">>
    [] c = "H" -> LET h12 == IF t.h % 12 = 0 THEN 12 ELSE t.h % 12 IN IF n = 1 THEN NatDigits(h12) ELSE IF n = 2 THEN Pad2(h12) ELSE <<"?">>
    [] c = "A" -> IF n = 2 THEN (IF t.h < 12 THEN <<"A", "M">> ELSE <<"P", "M">>) ELSE <<"?">>
    [] c = "a" -> IF n = 2 THEN (IF t.h < 12 THEN <<"a", "m">> ELSE <<"p", "m">>) ELSE <<"?">>
    [] c = "m" -> IF n = 1 THEN NatDigits(t.mi) ELSE IF n = 2 THEN Pad2(t.mi) ELSE <<"?">>
    [] c = "s" -> IF n = 1 THEN NatDigits(t.s) ELSE IF n = 2 THEN Pad2(t.s) ELSE <<"?">>
    [] c = "Z" -> IF n = 1 THEN (IF t.off = 0 THEN <<"Z">> ELSE ZoneText(t.off, TRUE))
                  ELSE IF n = 3 THEN (IF t.off = 0 THEN <<"U", "T", "C">> ELSE ZoneText(t.off, FALSE))
                  ELSE IF n = 4 THEN ZoneText(t.off, FALSE) ELSE IF n = 5 THEN ZoneText(t.off, TRUE) ELSE <<"?">>
    [] OTHER -> <<"?">>
RECURSIVE FDRun(_, _, _, _)
FDRun(f, i, t, out) ==
  IF i > Len(f) THEN OKV(out)
  ELSE IF f[i] = "'" THEN
       (IF i + 1 <= Len(f) /\ f[i + 1] = "'" THEN FDRun(f, i + 2, t, Append(out, "'"))
        ELSE LET e == QuoteEnd(f, i + 1) IN
             IF e = 0 THEN REJ ELSE FDRun(f, e + 1, t, out \o Unquote(SubSeq(f, i + 1, e - 1))))
  ELSE IF f[i] \in FDLetters THEN
       LET n == RunLen(f, i, f[i]) v == FDVerb(f[i], n, t) IN
       IF v = <<"?">> THEN REJ ELSE FDRun(f, i + n, t, out \o v)
  ELSE FDRun(f, i + 1, t, Append(out, f[i]))
FormatDateRef(f, ts) ==
  IF ~(\A i \in 1..Len(f) : f[i] \in FDLetters \cup FDOther) THEN UNDEF
  ELSE LET t == ParseTS(ts) IN
       IF Has(t, "undef") THEN UNDEF ELSE IF ~t.ok THEN REJ ELSE FDRun(f, 1, t, <<>>)

\* durations: [sign] (digits unit)+ with units h m s; total in seconds, or REJ / UNDEF
RECURSIVE DurRun(_, _, _)
DurRun(d, i, acc) ==
  IF i > Len(d) THEN OKV(acc)
  ELSE IF ~IsDigitC(d[i]) THEN (IF d[i] = "." THEN UNDEF ELSE REJ)
  ELSE LET nm == ScanNum(d, i, 0, 0) IN
       IF nm.n >= 4 THEN UNDEF
       ELSE IF nm.i > Len(d) THEN REJ                                        \* missing unit
       ELSE IF d[nm.i] = "." THEN UNDEF
       ELSE LET ul == IF nm.i + 1 <= Len(d) /\ ~IsDigitC(d[nm.i + 1]) /\ d[nm.i + 1] # "." THEN 2 ELSE 1
                u == SubSeq(d, nm.i, nm.i + ul - 1) IN
            IF u = <<"h">> THEN DurRun(d, nm.i + 1, acc + nm.v * 3600)
            ELSE IF u = <<"m">> THEN DurRun(d, nm.i + 1, acc + nm.v * 60)
            ELSE IF u = <<"s">> THEN DurRun(d, nm.i + 1, acc + nm.v)
            ELSE IF u \in {<<"m", "s">>, <<"u", "s">>, <<"n", "s">>} THEN UNDEF
            ELSE REJ
DurRef(d) ==
  IF ~KnownStr(d) THEN UNDEF
  ELSE LET neg == d # <<>> /\ d[1] = "-"
           body == IF d # <<>> /\ d[1] \in {"-", "+"} THEN Tail(d) ELSE d IN
       IF body = <<>> THEN REJ
       ELSE IF body = <<"0">> THEN OKV(0)
       ELSE LET r == DurRun(body, 1, 0) IN
            IF Has(r, "undef") \/ ~r.ok THEN r ELSE OKV(IF neg THEN -r.val ELSE r.val)
TimeAddRef(ts, d) ==
  LET t == ParseTS(ts) du == DurRef(d) IN
  IF Has(t, "undef") THEN UNDEF
  ELSE IF ~t.ok THEN REJ
  ELSE IF Has(du, "undef") THEN UNDEF
  ELSE IF ~du.ok THEN REJ
  ELSE LET secs == t.h * 3600 + t.mi * 60 + t.s + du.val
           days == DaysFromCivil(t.y, t.mo, t.d) + secs \div 86400
           sod == secs % 86400
           c == CivilFromDays(days) IN
       IF t.y < 1600 \/ c.y < 1 \/ c.y > 9999 THEN UNDEF
       ELSE OKV(Pad4(c.y) \o <<"-">> \o Pad2(c.m) \o <<"-">> \o Pad2(c.d) \o <<"T">> \o Pad2(sod \div 3600) \o <<":">> \o Pad2((sod % 3600) \div 60)
                \o <<":">> \o Pad2(sod % 60) \o (IF t.off = 0 THEN <<"Z">> ELSE ZoneText(t.off, TRUE)))

(***************************************************************************)
(* The reference                                                           *)
(***************************************************************************)
OpOfFn == [add |-> "Add", subtract |-> "Subtract", multiply |-> "Multiply", divide |-> "Divide", modulo |-> "Modulo",
           negate |-> "Negate", abs |-> "Absolute", lessthan |-> "LessThan", greaterthan |-> "GreaterThan",
           lessthanorequalto |-> "LessThanOrEqualTo", greaterthanorequalto |-> "GreaterThanOrEqualTo",
           equal |-> "Equals", notequal |-> "NotEqual", not |-> "Not", and |-> "And", or |-> "Or"]
StrArgs(a, n) == Len(a) = n /\ \A i \in 1..n : IsStrK(a[i]) /\ KnownStr(StrOf(a[i]))
OKS(s) == OKV(StrV(s))
FloorDiv(a, b) == a \div b                                   \* b > 0
CeilDiv(a, b) == -((-a) \div b)
Pow2Exp(n) ==    \* exponent e with n = 2^e for the dyadic numbers 1/4 .. 4, else 99
  IF ~IsSmallN(n) THEN 99 ELSE
  LET a == Nm(n) b == Dn(n) IN
  IF a = b THEN 0 ELSE IF a = 2 * b THEN 1 ELSE IF a = 4 * b THEN 2 ELSE IF 2 * a = b THEN -1 ELSE IF 4 * a = b THEN -2 ELSE 99
RECURSIVE IPow(_, _)
IPow(x, k) == IF k = 0 THEN 1 ELSE x * IPow(x, k - 1)

TRef(fn, a) ==
  LET n == Len(a) IN
  CASE fn \in DOMAIN OpOfFn ->
         IF (fn \in {"negate", "abs", "not"} /\ n = 1) \/ (fn \notin {"negate", "abs", "not"} /\ n = 2)
         THEN (IF \A i \in 1..n : a[i].st = "k" THEN Ref(OpOfFn[fn], a, <<>>) ELSE UNDEF) ELSE UNDEF
    [] fn \in {"ceil", "floor", "int"} ->
         IF n = 1 /\ IsNumK(a[1]) THEN
            (IF IsInfN(a[1].v) THEN (IF fn = "int" THEN UNDEF ELSE OKV(a[1]))
             ELSE IF ~IsSmallN(a[1].v) THEN UNDEF
             ELSE LET x == Nm(a[1].v) d == Dn(a[1].v) IN
                  OKV(NumOfRat(CASE fn = "ceil" -> CeilDiv(x, d) [] fn = "floor" -> FloorDiv(x, d) [] fn = "int" -> TruncDiv(x, d), 1)))
         ELSE UNDEF
    [] fn = "signum" ->
         IF n = 1 /\ IsNumK(a[1]) /\ HasRank(a[1].v) THEN OKV(NumV(4 * SignN(a[1].v))) ELSE UNDEF
    [] fn \in {"min", "max"} ->
         IF n = 0 THEN REJ
         ELSE IF \A i \in 1..n : IsNumK(a[i]) /\ HasRank(a[i].v)
         THEN OKV(a[CHOOSE i \in 1..n : \A j \in 1..n : IF fn = "min" THEN NumLE(a[i].v, a[j].v) ELSE NumLE(a[j].v, a[i].v)])
         ELSE UNDEF
    [] fn = "pow" ->
         IF n = 2 /\ SmallNum(a[1]) /\ IsNumK(a[2]) /\ Has(a[2].v, "q") THEN
            LET x == Nm(a[1].v) d == Dn(a[1].v) e == a[2].v.q IN
            IF e % 4 = 0 /\ e >= 0 /\ e <= 12 /\ AbsI(x) <= 16 /\ d <= 4 THEN OKV(NumOfRat(IPow(x, e \div 4), IPow(d, e \div 4)))
            ELSE IF e = -4 /\ Pow2Exp([n |-> AbsI(x), d |-> d]) # 99 /\ x # 0 THEN OKV(NumOfRat(d * SgnI(x), AbsI(x)))
            ELSE UNDEF
         ELSE UNDEF
    [] fn = "log" ->
         IF n = 2 /\ SmallNum(a[1]) /\ SmallNum(a[2]) THEN
            LET ex == Pow2Exp(a[1].v) eb == Pow2Exp(a[2].v) IN
            IF SignN(a[1].v) < 0 \/ SignN(a[2].v) < 0 THEN REJ                   \* no real logarithm
            ELSE IF ex # 99 /\ eb # 99 /\ eb # 0 THEN OKV(NumOfRat(ex * SgnI(eb), AbsI(eb)))
            ELSE UNDEF
         ELSE UNDEF
    [] fn = "parseint" ->
         IF n = 2 /\ IsStrK(a[1]) /\ IsNumK(a[2]) /\ Has(a[2].v, "q") /\ KnownStr(StrOf(a[1])) THEN
            LET s == StrOf(a[1])
                neg == s # <<>> /\ s[1] = "-"
                body == IF s # <<>> /\ s[1] \in {"-", "+"} THEN Tail(s) ELSE s
                base == a[2].v.q \div 4 IN
            IF a[2].v.q % 4 # 0 \/ base < 2 \/ base > 62 THEN REJ
            ELSE IF base > 36 \/ "_" \in CharSet(s) THEN UNDEF
            ELSE IF body = <<>> \/ \E i \in 1..Len(body) : DigitVal(body[i]) >= base THEN REJ
            ELSE IF Len(body) > 4 THEN UNDEF
            ELSE OKV(NumOfRat((IF neg THEN -1 ELSE 1) * DigitsVal(body, base, 0), 1))
         ELSE UNDEF
    [] fn = "upper" -> IF StrArgs(a, 1) THEN OKS([i \in 1..Len(StrOf(a[1])) |-> UpperC(StrOf(a[1])[i])]) ELSE UNDEF
    [] fn = "lower" -> IF StrArgs(a, 1) THEN OKS([i \in 1..Len(StrOf(a[1])) |-> LowerC(StrOf(a[1])[i])]) ELSE UNDEF
    [] fn = "title" ->
         IF StrArgs(a, 1) THEN
            LET s == StrOf(a[1])
                wordCh(c) == IsLetterC(c) \/ IsDigitC(c) \/ c = "_" \/ c \in ExtZ \/ c \in Pict \/ c = "ri" IN
            IF \E i \in 1..Len(s) : s[i] \in Pict \cup {"ri", "zwj", "tone"} THEN UNDEF
            ELSE OKS([i \in 1..Len(s) |-> IF i = 1 \/ ~wordCh(s[i - 1]) THEN UpperC(s[i]) ELSE s[i]])
         ELSE UNDEF
    [] fn = "strlen" -> IF StrArgs(a, 1) THEN OKV(NumV(4 * NClusters(StrOf(a[1])))) ELSE UNDEF
    [] fn = "reverse" -> IF StrArgs(a, 1) THEN OKS(ConcatAll(RevSeq(Clusters(StrOf(a[1]))))) ELSE UNDEF
    [] fn = "substr" ->
         IF n = 3 /\ IsStrK(a[1]) /\ KnownStr(StrOf(a[1])) /\ IsNumK(a[2]) /\ IsNumK(a[3]) /\ Has(a[2].v, "q") /\ Has(a[3].v, "q") THEN
            IF ~IsWhole(a[2]) \/ ~IsWhole(a[3]) THEN REJ
            ELSE LET s == StrOf(a[1]) L == NClusters(s) o0 == WholeOf(a[2]) ln == WholeOf(a[3])
                     off == IF o0 < 0 THEN o0 + L ELSE o0 IN
                 IF off < 0 \/ ln < -1 THEN UNDEF                     \* not documented
                 ELSE IF off >= L THEN OKS(<<>>)
                 ELSE IF ln = -1 THEN OKS(DropCl(s, off))
                 ELSE OKS(TakeCl(DropCl(s, off), ln))
         ELSE UNDEF
    [] fn = "join" ->
         IF n >= 1 /\ IsStrK(a[1]) /\ KnownStr(StrOf(a[1])) /\ (\A i \in 2..n : a[i].st = "k" /\ a[i].ty = TList(TStr)) THEN
            IF n = 1 THEN REJ
            ELSE LET items == ConcatAll([i \in 1..(n - 1) |-> Elems(a[i + 1])]) IN
                 IF \E i \in 1..Len(items) : items[i].st # "k" THEN (IF \E i \in 1..Len(items) : items[i].st = "unk" THEN UNDEF ELSE REJ)
                 ELSE OKS(JoinWith([i \in 1..Len(items) |-> StrOf(items[i])], StrOf(a[1])))
         ELSE UNDEF
    [] fn = "split" ->
         IF StrArgs(a, 2) THEN
            LET sep == StrOf(a[1]) s == StrOf(a[2])
                parts == IF sep = <<>> THEN [i \in 1..Len(s) |-> <<s[i]>>] ELSE SplitBy(s, sep) IN
            OKV(SeqV(TList(TStr), [i \in 1..Len(parts) |-> StrV(parts[i])]))
         ELSE UNDEF
    [] fn = "chomp" -> IF StrArgs(a, 1) THEN OKS(TrimR(StrOf(a[1]), {"CR", "LF"})) ELSE UNDEF
    [] fn = "indent" ->
         IF n = 2 /\ IsNumK(a[1]) /\ Has(a[1].v, "q") /\ IsStrK(a[2]) /\ KnownStr(StrOf(a[2])) THEN
            IF ~IsWhole(a[1]) \/ WholeOf(a[1]) < 0 THEN REJ
            ELSE IF WholeOf(a[1]) > 8 THEN UNDEF
            ELSE OKS(ReplAll(StrOf(a[2]), <<"LF">>, <<"LF">> \o Rep(" ", WholeOf(a[1]))))
         ELSE UNDEF
    [] fn = "trimspace" -> IF StrArgs(a, 1) THEN OKS(TrimR(TrimL(StrOf(a[1]), Spaces), Spaces)) ELSE UNDEF
    [] fn = "trim" -> IF StrArgs(a, 2) THEN OKS(TrimR(TrimL(StrOf(a[1]), CharSet(StrOf(a[2]))), CharSet(StrOf(a[2])))) ELSE UNDEF
    [] fn = "trimprefix" -> IF StrArgs(a, 2) THEN OKS(IF IsPre(StrOf(a[2]), StrOf(a[1])) THEN DropS(StrOf(a[1]), Len(StrOf(a[2]))) ELSE StrOf(a[1])) ELSE UNDEF
    [] fn = "trimsuffix" -> IF StrArgs(a, 2) THEN OKS(IF IsSuf(StrOf(a[2]), StrOf(a[1])) THEN TakeS(StrOf(a[1]), Len(StrOf(a[1])) - Len(StrOf(a[2]))) ELSE StrOf(a[1])) ELSE UNDEF
    [] fn = "replace" ->
         IF StrArgs(a, 3) THEN
            LET s == StrOf(a[1]) old == StrOf(a[2]) new == StrOf(a[3]) IN
            IF old = <<>> THEN OKS(new \o ConcatAll([i \in 1..Len(s) |-> <<s[i]>> \o new])) ELSE OKS(ReplAll(s, old, new))
         ELSE UNDEF
    \* the regular-expression functions on LITERAL patterns (plain letters: the pattern denotes itself), a sub-language whose
    \* semantics is substring search; everything else about regular expressions is outside the reference
    [] fn = "regex" ->
         IF StrArgs(a, 2) /\ LiteralPat(StrOf(a[1])) /\ PlainStr(StrOf(a[2]))
         THEN (IF FindAt(StrOf(a[2]), StrOf(a[1]), 1) > 0 THEN OKS(StrOf(a[1])) ELSE REJ) ELSE UNDEF
    [] fn = "regexall" ->
         IF StrArgs(a, 2) /\ LiteralPat(StrOf(a[1])) /\ PlainStr(StrOf(a[2]))
         THEN OKV(SeqV(TList(TStr), [i \in 1..(Len(SplitBy(StrOf(a[2]), StrOf(a[1]))) - 1) |-> StrV(StrOf(a[1]))])) ELSE UNDEF
    [] fn = "regexreplace" ->
         IF StrArgs(a, 3) /\ LiteralPat(StrOf(a[2])) /\ PlainStr(StrOf(a[1])) /\ PlainStr(StrOf(a[3]))
         THEN OKS(ReplAll(StrOf(a[1]), StrOf(a[2]), StrOf(a[3]))) ELSE UNDEF
    [] fn = "format" ->
         IF n >= 1 /\ IsStrK(a[1]) /\ (\A i \in 2..n : WhollyKnown(a[i])) THEN
            LET r == FormatRef(StrOf(a[1]), Tail(a)) IN
            IF Has(r, "undef") THEN UNDEF ELSE IF ~r.ok THEN REJ ELSE OKS(r.val)
         ELSE UNDEF
    [] fn = "formatlist" ->
         IF n >= 1 /\ IsStrK(a[1]) /\ (\A i \in 2..n : WhollyKnown(a[i])) THEN
            LET args == Tail(a)
                isSeq(v) == v.st = "k" /\ v.ty.k \in {"list", "tuple"}
                lens == {Len(Elems(args[i])) : i \in {j \in 1..Len(args) : isSeq(args[j])}} IN
            IF \E i \in 1..Len(args) : args[i].st = "k" /\ args[i].ty.k = "set" THEN UNDEF
            ELSE IF Cardinality(lens) > 1 THEN REJ
            ELSE LET cnt == IF n = 1 \/ lens = {} THEN 1 ELSE CHOOSE x \in lens : TRUE
                     row(k) == [i \in 1..Len(args) |-> IF isSeq(args[i]) THEN Elems(args[i])[k] ELSE args[i]]
                     rs == [k \in 1..cnt |-> FormatRef(StrOf(a[1]), row(k))] IN
                 IF \E k \in 1..cnt : Has(rs[k], "undef") THEN UNDEF
                 ELSE IF \E k \in 1..cnt : ~rs[k].ok THEN REJ
                 ELSE OKV(SeqV(TList(TStr), [k \in 1..cnt |-> StrV(rs[k].val)]))
         ELSE UNDEF
    [] fn = "jsonencode" ->
         IF n = 1 /\ WhollyKnown(a[1]) /\ JTextable(a[1]) THEN OKS(JText(a[1])) ELSE UNDEF
    [] fn = "jsonencode>jsondecode" ->
         IF n = 1 /\ WhollyKnown(a[1]) /\ JTextable(a[1]) THEN OKV(JImplied(a[1])) ELSE UNDEF
    [] fn = "formatdate" ->
         IF n = 2 /\ IsStrK(a[1]) /\ IsStrK(a[2]) THEN
            LET r == FormatDateRef(StrOf(a[1]), StrOf(a[2])) IN IF Has(r, "undef") THEN UNDEF ELSE IF ~r.ok THEN REJ ELSE OKS(r.val)
         ELSE UNDEF
    [] fn = "timeadd" ->
         IF n = 2 /\ IsStrK(a[1]) /\ IsStrK(a[2]) THEN
            LET r == TimeAddRef(StrOf(a[1]), StrOf(a[2])) IN IF Has(r, "undef") THEN UNDEF ELSE IF ~r.ok THEN REJ ELSE OKS(r.val)
         ELSE UNDEF
    [] fn = "csvdecode" ->
         IF n = 1 /\ IsStrK(a[1]) THEN CsvRef(StrOf(a[1])) ELSE UNDEF
    [] OTHER -> UNDEF

TRefFns == DOMAIN OpOfFn \cup {"ceil", "floor", "int", "signum", "min", "max", "pow", "log", "parseint", "upper", "lower", "title", "strlen",
             "reverse", "substr", "join", "split", "chomp", "indent", "trimspace", "trim", "trimprefix", "trimsuffix", "replace", "regex", "regexall", "regexreplace",
             "format", "formatlist", "jsonencode", "jsonencode>jsondecode", "csvdecode", "formatdate", "timeadd"}

\* A string the reference spells may have a different NORMAL form (a letter followed by the combining
\* acute composes); such results are not judged.
Composable == {"a", "c", "e", "n", "z", "A", "C", "E", "N", "Z"}
Stable(s) == \A i \in 2..Len(s) : s[i] = "acute" => s[i - 1] \notin Composable
RECURSIVE ResStable(_)
ResStable(v) == IF v.st # "k" THEN TRUE
                ELSE IF v.ty.k = "string" THEN Stable(StrOf(v))
                ELSE \A m \in Members(v) : ResStable(m)
RECURSIVE Gcd(_, _)
Gcd(x, y) == IF y = 0 THEN x ELSE Gcd(y, x % y)
IsPow2(d) == d \in {1, 2, 4, 8, 16, 32, 64, 128, 256, 512, 1024, 2048, 4096, 8192, 16384, 32768, 65536}
\* a rational result the library can hold exactly (every finite big.Float is dyadic)
Dyadic(v) == ~(v.st = "k" /\ v.ty.k = "number" /\ Has(v.v, "d") /\ ~Has(v.v, "lm")) \/ (LET g == Gcd(AbsI(v.v.n), v.v.d) IN g > 0 /\ IsPow2(v.v.d \div g))
MatchT(o, r) == IF o.st = "k" /\ o.ty.k = "number" /\ r.st = "k" /\ r.ty.k = "number" THEN Match(o, r) ELSE Canon(o) = Canon(r)
TDecidable(e) == e.fn \in TRefFns /\ AllWhollyKnown(e.a) /\ NoMarksIn(e.a) /\ AllRanked(e.a)
TRefFailed(e) ==
  IF ~TDecidable(e) THEN {}
  ELSE LET ref == TRef(e.fn, e.a) IN
       IF Has(ref, "undef") THEN {}
       ELSE IF ~ref.ok THEN (IF e.r.ok THEN {"C14.FailsOutsideDomain"} ELSE {})
       ELSE IF ~ResStable(ref.val) \/ ~Dyadic(ref.val) THEN {}
       ELSE IF ~e.r.ok THEN {"C14.FailsOnlyOutsideDomain"}
       ELSE IF NumUnranked(e.r.val) THEN {"C14.ResultIsRef"}
       ELSE IF MatchT(e.r.val, ref.val) THEN {} ELSE {"C14.ResultIsRef"}
TRefDecided(e) == TDecidable(e) /\ LET ref == TRef(e.fn, e.a) IN ~Has(ref, "undef") /\ (ref.ok => ResStable(ref.val) /\ Dyadic(ref.val))
=============================================================================
