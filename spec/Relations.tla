------------------------------ MODULE Relations ------------------------------
(***************************************************************************)
(* The vocabulary every property is written in: type equality and          *)
(* conformance, optional stripping, placeholder detection, mark algebra,   *)
(* well-formedness, abstract equality, and the approximation order Admits. *)
(***************************************************************************)
EXTENDS Universe

(***************************************************************************)
(* Types                                                                   *)
(***************************************************************************)
OptSet(t) == IF Has(t, "opt") THEN ToSet(t.opt) ELSE {}

RECURSIVE TEquals(_, _)
TEquals(a, b) ==
  /\ a.k = b.k
  /\ CASE a.k \in CollKinds -> TEquals(a.e, b.e)
       [] a.k = "tuple"  -> /\ Len(a.es) = Len(b.es)
                            /\ \A i \in 1..Len(a.es) : TEquals(a.es[i], b.es[i])
       [] a.k = "object" -> /\ DOMAIN a.as = DOMAIN b.as
                            /\ OptSet(a) = OptSet(b)
                            /\ \A n \in DOMAIN a.as : TEquals(a.as[n], b.as[n])
       [] a.k = "capsule" -> a.n = b.n
       [] OTHER -> TRUE

\* given conforms to constraint want: dynamic in want is a wildcard; optional
\* annotations are disregarded on both sides.
RECURSIVE Conforms(_, _)
Conforms(g, w) ==
  \/ w.k = "dynamic"
  \/ /\ g.k = w.k
     /\ CASE g.k \in CollKinds -> Conforms(g.e, w.e)
          [] g.k = "tuple"  -> /\ Len(g.es) = Len(w.es)
                               /\ \A i \in 1..Len(g.es) : Conforms(g.es[i], w.es[i])
          [] g.k = "object" -> /\ DOMAIN g.as = DOMAIN w.as
                               /\ \A n \in DOMAIN g.as : Conforms(g.as[n], w.as[n])
          [] g.k = "capsule" -> g.n = w.n
          [] OTHER -> TRUE

RECURSIVE HasDyn(_)
HasDyn(t) ==
  CASE t.k = "dynamic" -> TRUE
    [] t.k \in CollKinds -> HasDyn(t.e)
    [] t.k = "tuple"  -> \E i \in 1..Len(t.es) : HasDyn(t.es[i])
    [] t.k = "object" -> \E n \in DOMAIN t.as : HasDyn(t.as[n])
    [] OTHER -> FALSE

RECURSIVE StripOpt(_)
StripOpt(t) ==
  CASE t.k \in CollKinds -> [t EXCEPT !.e = StripOpt(t.e)]
    [] t.k = "tuple"  -> [t EXCEPT !.es = [i \in 1..Len(t.es) |-> StripOpt(t.es[i])]]
    [] t.k = "object" -> [k |-> "object", as |-> [n \in DOMAIN t.as |-> StripOpt(t.as[n])], opt |-> <<>>]
    [] OTHER -> t

RECURSIVE HasOpt(_)
HasOpt(t) ==
  CASE t.k \in CollKinds -> HasOpt(t.e)
    [] t.k = "tuple"  -> \E i \in 1..Len(t.es) : HasOpt(t.es[i])
    [] t.k = "object" -> OptSet(t) # {} \/ \E n \in DOMAIN t.as : HasOpt(t.as[n])
    [] OTHER -> FALSE

RECURSIVE HasCapsule(_)
HasCapsule(t) ==
  CASE t.k = "capsule" -> TRUE
    [] t.k \in CollKinds -> HasCapsule(t.e)
    [] t.k = "tuple"  -> \E i \in 1..Len(t.es) : HasCapsule(t.es[i])
    [] t.k = "object" -> \E n \in DOMAIN t.as : HasCapsule(t.as[n])
    [] OTHER -> FALSE

\* Conformance characterised independently (used to cross-check Conforms in
\* MC/Types.cfg): substitute the given type's parts for the constraint's
\* placeholders, then compare ignoring optionals.
RECURSIVE Subst(_, _)
Subst(w, g) ==
  CASE w.k = "dynamic" -> StripOpt(g)
    [] w.k \in CollKinds /\ g.k = w.k -> [k |-> w.k, e |-> Subst(w.e, g.e)]
    [] w.k = "tuple" /\ g.k = "tuple" /\ Len(w.es) = Len(g.es) ->
          [k |-> "tuple", es |-> [i \in 1..Len(w.es) |-> Subst(w.es[i], g.es[i])]]
    [] w.k = "object" /\ g.k = "object" /\ DOMAIN w.as = DOMAIN g.as ->
          [k |-> "object", as |-> [n \in DOMAIN w.as |-> Subst(w.as[n], g.as[n])], opt |-> <<>>]
    [] OTHER -> StripOpt(w)
ConformsBySubst(g, w) == TEquals(Subst(w, g), StripOpt(g))

(***************************************************************************)
(* Marks                                                                   *)
(***************************************************************************)
TopMarks(v) == ToSet(v.mk)

Members(v) == \* immediate member values of a known structural value, as a set
  IF v.st # "k" THEN {}
  ELSE CASE v.ty.k \in {"list", "set", "tuple"} -> {Elems(v)[i] : i \in 1..Len(Elems(v))}
         [] v.ty.k \in {"map", "object"} -> {Attrs(v)[n] : n \in DOMAIN Attrs(v)}
         [] OTHER -> {}

RECURSIVE MarksIn(_)
MarksIn(v) == TopMarks(v) \cup UNION {MarksIn(m) : m \in Members(v)}

RECURSIVE UnmarkDeep(_)
UnmarkDeep(v) ==
  IF v.st # "k" THEN [v EXCEPT !.mk = <<>>]
  ELSE CASE v.ty.k \in {"list", "set", "tuple"} ->
              [v EXCEPT !.mk = <<>>, !.v = [l |-> [i \in 1..Len(Elems(v)) |-> UnmarkDeep(Elems(v)[i])]]]
         [] v.ty.k \in {"map", "object"} ->
              [v EXCEPT !.mk = <<>>, !.v = [m |-> [n \in DOMAIN Attrs(v) |-> UnmarkDeep(Attrs(v)[n])]]]
         [] OTHER -> [v EXCEPT !.mk = <<>>]

RECURSIVE WhollyKnown(_)
WhollyKnown(v) == v.st # "unk" /\ \A m \in Members(v) : WhollyKnown(m)

(***************************************************************************)
(* Canonical form: set payloads become TLA+ sets, marks dropped, so that   *)
(* abstract equality of wholly known values is plain equality.             *)
(***************************************************************************)
RECURSIVE Canon(_)
Canon(v) ==
  IF v.st # "k" THEN [ty |-> StripOpt(v.ty), st |-> v.st]
  ELSE CASE v.ty.k \in {"list", "tuple"} ->
              [ty |-> v.ty, st |-> "k", v |-> [l |-> [i \in 1..Len(Elems(v)) |-> Canon(Elems(v)[i])]]]
         [] v.ty.k = "set" ->
              [ty |-> v.ty, st |-> "k", v |-> [z |-> {Canon(Elems(v)[i]) : i \in 1..Len(Elems(v))}]]
         [] v.ty.k \in {"map", "object"} ->
              [ty |-> v.ty, st |-> "k", v |-> [m |-> [n \in DOMAIN Attrs(v) |-> Canon(Attrs(v)[n])]]]
         [] OTHER -> [ty |-> v.ty, st |-> "k", v |-> v.v]

\* abstract equality of two wholly known values (nulls equal iff same type)
AbsEq(a, b) == Canon(a) = Canon(b)

(***************************************************************************)
(* Refinement ranges                                                       *)
(***************************************************************************)
NoLo(rf) == ~Has(rf, "lo")
NoHi(rf) == ~Has(rf, "hi")
InLo(rf, n) == NoLo(rf) \/ (IF rf.loInc THEN NumLE(rf.lo, n) ELSE NumLT(rf.lo, n))
InHi(rf, n) == NoHi(rf) \/ (IF rf.hiInc THEN NumLE(n, rf.hi) ELSE NumLT(n, rf.hi))
LENINF == 1000000000
MinLen(rf) == IF Has(rf, "minLen") THEN rf.minLen ELSE 0
MaxLen(rf) == IF Has(rf, "maxLen") THEN rf.maxLen ELSE LENINF
PrefixOf(rf) == IF Has(rf, "prefix") THEN rf.prefix ELSE <<>>

RfRanked(rf) == (Has(rf, "lo") => HasRank(rf.lo)) /\ (Has(rf, "hi") => HasRank(rf.hi))

\* everything range c admits, range a admits
LoSub(a, c) == NoLo(a) \/ (~NoLo(c) /\ (NumLT(a.lo, c.lo) \/ (NumSame(c.lo, a.lo) /\ (a.loInc \/ ~c.loInc))))
HiSub(a, c) == NoHi(a) \/ (~NoHi(c) /\ (NumLT(c.hi, a.hi) \/ (NumSame(c.hi, a.hi) /\ (a.hiInc \/ ~c.hiInc))))
NullSub(a, c) == (a.null = "F" => c.null = "F") /\ (a.null = "T" => c.null = "T")
PrefixSub(a, c) == IsPrefix(PrefixOf(a), PrefixOf(c))
LenSub(a, c) == MinLen(a) <= MinLen(c) /\ MaxLen(c) <= MaxLen(a)

\* length range of a known collection: a set with unknown members may coalesce
HasUnkMember(v) == \E m \in Members(v) : ~WhollyKnown(m)
LenLoOf(c) == IF c.ty.k = "set" /\ HasUnkMember(c) THEN 1 ELSE
              IF c.ty.k = "map" THEN Cardinality(DOMAIN Attrs(c)) ELSE Len(Elems(c))
LenHiOf(c) == IF c.ty.k = "map" THEN Cardinality(DOMAIN Attrs(c)) ELSE Len(Elems(c))

(***************************************************************************)
(* Admits(a, c): a is a sound approximation of c.  Marks are not part of   *)
(* the relation (C04 owns marks).  Numbers without a rank (opaque          *)
(* decimals) are compared by identity only; NeedsRank(a, c) tells a rule   *)
(* that the relation is undecidable for the pair (inconclusive event).     *)
(***************************************************************************)
RECURSIVE Admits(_, _)
Admits(a, c) ==
  CASE a.st = "null" -> c.st = "null" /\ Conforms(c.ty, a.ty)
    [] a.st = "unk" ->
         /\ Conforms(c.ty, a.ty)
         /\ CASE c.st = "null" -> a.rf.null # "F"
              [] c.st = "unk" ->
                   /\ NullSub(a.rf, c.rf)
                   /\ (c.rf.null = "T" \/
                       ( /\ LoSub(a.rf, c.rf) /\ HiSub(a.rf, c.rf)
                         /\ PrefixSub(a.rf, c.rf)
                         /\ LenSub(a.rf, c.rf) ))
              [] OTHER ->
                   /\ a.rf.null # "T"
                   /\ (c.ty.k = "number" => (InLo(a.rf, c.v) /\ InHi(a.rf, c.v)))
                   /\ (c.ty.k = "string" => IsPrefix(PrefixOf(a.rf), StrOf(c)))
                   /\ (IsCollT(c.ty) => (MinLen(a.rf) <= LenLoOf(c) /\ LenHiOf(c) <= MaxLen(a.rf)))
    [] OTHER ->   \* a known
         /\ c.st = "k"
         /\ Conforms(c.ty, a.ty)
         /\ a.ty.k = c.ty.k
         /\ CASE a.ty.k \in {"list", "tuple"} ->
                   /\ Len(Elems(a)) = Len(Elems(c))
                   /\ \A i \in 1..Len(Elems(a)) : Admits(Elems(a)[i], Elems(c)[i])
              [] a.ty.k \in {"map", "object"} ->
                   /\ DOMAIN Attrs(a) = DOMAIN Attrs(c)
                   /\ \A n \in DOMAIN Attrs(a) : Admits(Attrs(a)[n], Attrs(c)[n])
              [] a.ty.k = "set" ->
                   LET A == Elems(a) C == Elems(c) IN
                   /\ Len(C) <= Len(A)
                   /\ \A i \in 1..Len(A) : \E j \in 1..Len(C) : Admits(A[i], C[j])
                   /\ \A j \in 1..Len(C) : \E i \in 1..Len(A) : Admits(A[i], C[j])
                   /\ (Len(A) <= 4 =>
                        \E f \in [1..Len(A) -> 1..Len(C)] :
                           /\ {f[i] : i \in 1..Len(A)} = 1..Len(C)
                           /\ \A i \in 1..Len(A) : Admits(A[i], C[f[i]]))
              [] a.ty.k = "number" -> IF HasRank(a.v) /\ HasRank(c.v) THEN NumSame(a.v, c.v) ELSE a.v = c.v
              [] OTHER -> a.v = c.v

\* TRUE when deciding Admits(a, c) needs an order the projection lacks.
RECURSIVE AllNums(_)
AllNums(v) ==
  IF v.st = "k" THEN
     (IF v.ty.k = "number" THEN {v.v} ELSE UNION {AllNums(m) : m \in Members(v)})
  ELSE IF v.st = "unk" THEN
     (IF Has(v.rf, "lo") THEN {v.rf.lo} ELSE {}) \cup (IF Has(v.rf, "hi") THEN {v.rf.hi} ELSE {})
  ELSE {}
Ranked(v) == \A n \in AllNums(v) : HasRank(n)

(***************************************************************************)
(* Well-formedness (C06).  The projection adds, when the hook is on, an    *)
(* internal view v.in = [gk, md, rk] and, for strings/keys, v.nfc.        *)
(***************************************************************************)
NumShape(n) == Has(n, "q") \/ Has(n, "d") \/ Has(n, "inf") \/ Has(n, "lm") \/ Has(n, "dec")

RfWellFormed(ty, rf) ==
  /\ Has(rf, "null") /\ rf.null \in {"U", "F", "T"}
  /\ ((Has(rf, "lo") \/ Has(rf, "hi")) => ty.k = "number")
  /\ ((Has(rf, "minLen") \/ Has(rf, "maxLen")) => IsCollT(ty))
  /\ (Has(rf, "prefix") => ty.k = "string")
  /\ (Has(rf, "minLen") /\ Has(rf, "maxLen") => rf.minLen <= rf.maxLen)
  /\ (Has(rf, "minLen") => rf.minLen >= 0)
  /\ (ty.k = "dynamic" => DOMAIN rf = {"null"} /\ rf.null = "U")

\* a member has exactly the declared type; where the declared type is (or contains) the
\* dynamic placeholder the member may be more specific only through unknown / null members
MemberTypeOk(m, t) == TEquals(m.ty, t)

\* internal view (build-tag hook cty.VerifInspect), one record per node of a result value:
\* the Go kind of the payload is the one the type dictates, at most one marker layer, the
\* refinement struct is the one for the type, a set's rules carry the declared element type
NodeOK(n) ==
  /\ n.md <= 1
  /\ CASE n.st = "null" -> n.gk = "nil"
        [] n.st = "unk" -> n.gk = "unknown" /\ n.rk \in
              (CASE n.ty.k = "number" -> {"", "number"} [] n.ty.k = "string" -> {"", "string"} [] IsCollT(n.ty) -> {"", "collection"}
                 [] n.ty.k = "dynamic" -> {""} [] OTHER -> {"", "nullable"})
        [] OTHER ->
             CASE n.ty.k = "bool" -> n.gk = "bool" [] n.ty.k = "number" -> n.gk = "bigfloat" [] n.ty.k = "string" -> n.gk = "string"
               [] n.ty.k \in {"list", "tuple"} -> n.gk = "slice" [] n.ty.k \in {"map", "object"} -> n.gk = "map"
               [] n.ty.k = "set" -> n.gk = "set" /\ Has(n, "sety") /\ TEquals(n.sety, n.ty.e)
               [] OTHER -> TRUE

NoDupSeq(s) == \A i, j \in 1..Len(s) : i # j => s[i] # s[j]

RECURSIVE WellFormed(_)
WellFormed(v) ==
  /\ v.st \in {"k", "null", "unk"}
  /\ ~HasOpt(v.ty)
  /\ NoDupSeq(v.mk)
  /\ (Has(v, "in") => v.in.md <= 1)
  /\ ~Has(v, "bad")
  /\ CASE v.st = "null" -> TRUE
       [] v.st = "unk"  -> RfWellFormed(v.ty, v.rf)
       [] OTHER ->
           CASE v.ty.k = "bool"   -> Has(v.v, "b") /\ v.v.b \in BOOLEAN
             [] v.ty.k = "number" -> NumShape(v.v)
             [] v.ty.k = "string" -> Has(v.v, "s") /\ (Has(v, "nfc") => v.nfc)
             [] v.ty.k = "dynamic" -> FALSE
             [] v.ty.k = "capsule" -> TRUE
             [] v.ty.k \in {"list", "set"} ->
                  /\ Has(v.v, "l")
                  /\ \A i \in 1..Len(Elems(v)) : MemberTypeOk(Elems(v)[i], v.ty.e) /\ WellFormed(Elems(v)[i])
                  /\ (v.ty.k = "set" =>
                        /\ \A i \in 1..Len(Elems(v)) : MarksIn(Elems(v)[i]) = {}
                        /\ \A i, j \in 1..Len(Elems(v)) :
                             (i < j /\ WhollyKnown(Elems(v)[i]) /\ WhollyKnown(Elems(v)[j])) => ~AbsEq(Elems(v)[i], Elems(v)[j]))
             [] v.ty.k = "map" ->
                  /\ Has(v.v, "m")
                  /\ \A n \in DOMAIN Attrs(v) : MemberTypeOk(Attrs(v)[n], v.ty.e) /\ WellFormed(Attrs(v)[n])
                  /\ (Has(v, "nfc") => v.nfc)
             [] v.ty.k = "tuple" ->
                  /\ Has(v.v, "l")
                  /\ Len(Elems(v)) = Len(v.ty.es)
                  /\ \A i \in 1..Len(Elems(v)) : MemberTypeOk(Elems(v)[i], v.ty.es[i]) /\ WellFormed(Elems(v)[i])
             [] v.ty.k = "object" ->
                  /\ Has(v.v, "m")
                  /\ DOMAIN Attrs(v) = DOMAIN v.ty.as
                  /\ \A n \in DOMAIN Attrs(v) : MemberTypeOk(Attrs(v)[n], v.ty.as[n]) /\ WellFormed(Attrs(v)[n])
                  /\ (Has(v, "nfc") => v.nfc)
\* a result record [ok, val (, in)]: the value is well-formed through the public accessors and,
\* when the hook view was recorded, internally
WellFormedR(r) == WellFormed(r.val) /\ (Has(r, "in") => \A i \in 1..Len(r.in) : NodeOK(r.in[i]))
=============================================================================
