"""C08 - type conversion is conformant, total where safe, idempotent, never panics."""
import json

def run(c, a):
    c.rule_text = ("TLC enumerates (value, target) requests: values of every source type of the bounded universe (known, null, typed unknowns with every "
                   "refinement kind, nested unknown / null / marked members, marked null / unknown, DynamicVal, dynamically typed null, numeric strings) "
                   "x a fixed menu of 32 targets (unrelated types, kind changes, element conversions, optional attributes, nested placeholders) plus "
                   "the value's own type and every single-position placeholder insertion. The harness records Convert, a second application, the inverse "
                   "conversion, what GetConversion / GetConversionUnsafe offer and do, and - for unknown inputs - the conversions of admitted concrete "
                   "candidates; TLC judges NoPanic, ResultConforms, KeepsResolvedPlaceholders, Identity, Idempotent, RoundTrip (where the inverse is "
                   "exact), NullPassThrough, KnownStaysKnown, UnknownAdmitsConvertedCandidates, SafeIsTotal, SafeSubsetUnsafe, ResultIsRef "
                   "(element-preserving structural conversions). Non-trivial = successful conversion to a different type.")
    c.assumptions = ["reference results only for element-preserving structural conversions; primitive spellings (number<->string) are judged by round trip, not by text",
                     "Project/Concretize faithful"]
    c.build_harness()
    if a.replay:
        rec = c.load_replay(a.replay)
        e = rec["event"]
        vec = c.path("replay.ndjson")
        open(vec, "w").write(json.dumps({"vals": [{"v": e["in"], "cands": [x["c"] for x in e.get("cands", [])]}], "targets": [e["target"]]}) + "\n")
        out = c.path("replay-ev.ndjson")
        c.harness("conv", out, inp=vec)
        c.trace("ConvertTrace", out, nshards=1, dedupe=False)
        return
    n = 16
    jobs, outs = [], []
    for i in range(n):
        out = c.path("cvec-%d.ndjson" % i)
        jobs.append(("ConvertGen", {"VTIER": c.tier, "VSHARDI": i, "VSHARDN": n, "VOUT": out}))
        outs.append(out)
    g = c.gen_parallel(jobs)
    c.note("source types", g)
    pairs = [(o, o.replace("cvec-", "cev-")) for o in outs]
    c.harness_parallel("conv", pairs)
    ev = c.concat([p[1] for p in pairs], c.path("cevents.ndjson"))
    c.sample_events(ev, 1, lambda l: '"st":"unk"' in l and '"ok":true' in l and '"cands":[{' in l)
    c.sample_events(ev, 1, lambda l: '"opt":["' in l and '"ok":true' in l)
    c.trace("ConvertTrace", ev)
    c.extra["exhaustive"] = True
