"""C04 - marks never change results, are never lost where promised, never invented."""
from checks.opsfam import run_ops, replay_ops, ALL_OPS
from checks.stdfam import run_std, replay_std

def run(c, a):
    c.rule_text = ("Two-run non-interference: TLC enumerates operand tuples / conversion requests / constructor member lists / standard-library argument "
                   "lists and every placement of marks m1, m2 on the top level and on nested members (also combined with unknown and null values); "
                   "the harness runs the real API on the marked inputs and on the same inputs with all marks stripped; TLC judges premise "
                   "(stripped = UnmarkDeep(marked)), SameOutcome, SameValue (UnmarkDeep of the results equal), NoInvention, TopMarksKept (operation "
                   "methods and Convert), DeepMarksKept (arguments of parameters without AllowMarked, read from the real function), SetHoists. "
                   "Non-trivial = marked call succeeded with at least one mark present.")
    c.assumptions = ["marks are the two strings m1, m2", "AllowMarked flags are read from the function's own Params()/VarParam()"]
    c.build_harness()
    if a.replay:
        rec = c.load_replay(a.replay)
        if rec["event"]["api"].startswith("fn:"):
            return replay_std(c, rec)
        return replay_ops(c, rec)
    import os
    only = os.environ.get("VERIF_C04_ONLY")      # debugging aid: "ctor" = conversions / constructors / mark API / predicates alone
    if only != "ctor":
        ev = run_ops(c, "mark", ALL_OPS)
        c.sample_events(ev, 1, lambda l: '"m1"' in l and '"m2"' in l)
        c.trace("OpsTrace", ev)
    jobs, outs = [], []
    for fam in ("convert", "ctor"):
        out = c.path("vec-mark-%s.ndjson" % fam)
        jobs.append(("MarkGen", {"VFAM": fam, "VTIER": c.tier, "VOUT": out}))
        outs.append(out)
    c.gen_parallel(jobs)
    pairs = [(o, o.replace("vec-", "ev-")) for o in outs]
    c.harness_parallel("ops", pairs)
    ev2 = c.concat([p[1] for p in pairs], c.path("events-mark2.ndjson"))
    c.sample_events(ev2, 1, lambda l: '"SetVal"' in l and '"m2"' in l)
    c.trace("OpsTrace", ev2)
    if only == "ctor":
        return
    ev3 = run_std(c, "mark")
    c.sample_events(ev3, 1, lambda l: '"am":[false' in l and '"m1"' in l)
    c.trace("StdlibTrace", ev3)
