"""C04 - marks never change results, are never lost where promised, never invented."""
from checks.opsfam import run_ops, replay_ops, ALL_OPS

def run(c, a):
    c.rule_text = "WIP ops part"
    c.build_harness()
    if a.replay:
        return replay_ops(c, c.load_replay(a.replay))
    ev = run_ops(c, "mark", ALL_OPS)
    c.sample_events(ev, 3, lambda l: '"m1"' in l)
    c.trace("OpsTrace", ev)
