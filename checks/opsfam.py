"""Shared pipeline for the operation-method family (Ops.tla): TLC generators -> harness -> TLC trace validation."""
import json, os

NUM_BIN = ["Add", "Subtract", "Multiply", "Divide", "Modulo", "LessThan", "GreaterThan", "LessThanOrEqualTo", "GreaterThanOrEqualTo"]
ALL_OPS = NUM_BIN + ["Negate", "Absolute", "And", "Or", "Not", "Equals", "NotEqual", "Index", "HasIndex", "GetAttr", "HasElement", "Length"]
HEAVY = {"Equals": 16, "NotEqual": 8, "Index": 16, "HasIndex": 16, "HasElement": 4, "Length": 2}


def gen_jobs(c, mode, apis, scale=1):
    jobs, outs = [], []
    for api in apis:
        n = HEAVY.get(api, 1) * scale
        if mode == "call":
            n = max(1, n // (2 if c.tier == "thorough" else 4))
        for i in range(n):
            out = c.path("vec-%s-%s-%d.ndjson" % (mode, api, i))
            jobs.append(("OpsGen", {"VAPI": api, "VMODE": mode, "VTIER": c.tier, "VSHARDI": i, "VSHARDN": n, "VOUT": out}))
            outs.append(out)
    return jobs, outs


def run_ops(c, mode, apis=ALL_OPS, prop=None, scale=1):
    if os.environ.get("VERIF_APIS"):      # debugging aid: restrict the operations explored
        apis = [a for a in apis if a in os.environ["VERIF_APIS"].split(",")]
    jobs, outs = gen_jobs(c, mode, apis, scale)
    n = c.gen_parallel(jobs, timeout=3000 if c.tier == "thorough" else 1500)
    c.note("generated", n, "operand tuples for", mode)
    pairs = [(o, o.replace("vec-", "ev-")) for o in outs]
    args = ["prop=" + prop] if prop else []
    res = c.harness_parallel("ops", pairs, args=args)
    ev = c.concat([p[1] for p in pairs], c.path("events-%s.ndjson" % mode))
    c.note("recorded", sum(r.get("events", 0) for r in res), "events")
    return ev


def replay_ops(c, rec):
    """Re-execute one rejected event on the current tree and re-validate it."""
    e = rec["event"]
    vec = c.path("replay-vec.ndjson")
    if e["ev"] == "call":
        line = {"k": "call", "api": e["api"], "xs": [e["x"]], "a": e["a"], "vs": []}
    elif e.get("rel") == "unmark":
        line = {"k": "mark", "api": e["api"], "xs": [e["x"]], "a": e["a"], "vs": [e["a"]]}
    else:
        line = {"k": "weak", "api": e["api"], "xs": [e["x"]], "a": e["a"], "vs": [e["b"]]}
    with open(vec, "w") as f:
        f.write(json.dumps(line) + "\n")
    out = c.path("replay-ev.ndjson")
    args = ["prop=" + e["prop"]] if "prop" in e else []
    c.harness("ops", out, inp=vec, args=args)
    c.trace("OpsTrace", out, nshards=1, dedupe=False)
