"""C06 - every value the library returns is well-formed for its type."""
import importlib

def run(c, a):
    global RULE
    RULE = ("WellFormed (Relations.tla) is evaluated by TLC on every value recorded as a result by the drivers of the other properties: "
                   "constructors on TLC-generated member lists (marked, unknown, null, heterogeneous), conversions (C08), standard-library calls (C11), "
                   "walk/transform (C19), set construction and ValueSet round trips (C03), decoders (C15-C17) and in the thorough tier also the "
                   "operation methods, unification and the call protocol. Each value is observed twice: through every public accessor applicable to "
                   "its type (an accessor panic or a LengthInt/iterator disagreement is recorded as malformed) and, for the constructor/conversion "
                   "families, through the build-tag hook cty.VerifInspect (Go kind of the payload vs type, marker nesting depth, refinement struct "
                   "kind, set rules element type). Rules: payload shape = type, declared element/attribute types, tuple/object arity, NFC strings and "
                   "keys, sets without marked or equal members, at most one marker layer, no optional-attribute annotations anywhere in the type.")
    assumptions = ["re-uses the generators of C03/C04/C08/C11/C19 (and C15-C17 when built); only rules named C06.* are verdicts here"]
    if a.replay:
        raise SystemExit("replay C06 findings with the owning family's check (the viol file names the api)")
    fams = ["c08", "c11", "c03"]
    more = ["c19", "c04", "c01", "c09", "c10", "c12", "c13"]
    for extra in ("c15", "c16", "c17", "c18"):
        try:
            importlib.import_module("checks." + extra)
            (fams if extra in ("c15", "c16") else more).append(extra)
        except Exception:
            pass
    if c.tier == "thorough":
        fams += more
    c.inspect = True
    # constructors and conversions on marked / unknown / null member lists
    c.build_harness()
    jobs, outs = [], []
    for fam in ("convert", "ctor"):
        out = c.path("vec-c06-%s.ndjson" % fam)
        jobs.append(("MarkGen", {"VFAM": fam, "VTIER": c.tier, "VOUT": out}))
        outs.append(out)
    c.gen_parallel(jobs)
    pairs = [(o, o.replace("vec-", "ev-")) for o in outs]
    c.harness_parallel("ops", pairs)
    evc = c.concat([p[1] for p in pairs], c.path("events-c06-ctor.ndjson"))
    c.sample_events(evc, 1, lambda l: '"SetVal"' in l and '"in":[' in l)
    c.trace("OpsTrace", evc)
    import os
    if os.environ.get("VERIF_C06_ONLY") == "ctor":      # debugging aid: the constructor family alone
        c.rule_text = RULE
        return
    # member lookups under every physical representation of the operands (non-normalized input strings and keys)
    from checks.opsfam import run_ops
    evo = run_ops(c, "call", ["Index", "GetAttr", "HasIndex", "Equals"])
    c.trace("OpsTrace", evo, dedupe=False)
    for f in fams:
        c.note("family", f)
        importlib.import_module("checks." + f).run(c, a)
    c.rule_text = RULE
    c.assumptions = assumptions
    c.extra["families"] = fams

RULE = None
