"""C18 - Go-value bridging is exact or refuses: no silent loss."""
import json

def run(c, a):
    c.rule_text = ("GoBridge.tla mirrors a fixed family of Go types as descriptors (all ten integer widths, float32/64, string, bool, []T, map[string]T, *T, "
                   "a tagged struct with a pointer field, cty.Value; nested) with ImpliedTypeRef, ToCtyRef and number representability per Go kind by "
                   "landmark order. (a) TLC enumerates numbers at every width boundary, +-1, +1/2, fractions, 2^53(+1), 10^30, 10^300, float32/float64 "
                   "limits and beyond, +-infinity, 0.1 and 1/3 at 512 bits x every Go numeric kind (three physical representations): FromCtyValue succeeds "
                   "exactly when Representable and then stores that number. (b) abstract Go values of the family (nil and empty slices / maps / pointers, "
                   "nested slices, maps of pointers, structs) are built with reflect, pushed through ImpliedType / ToCtyValue / FromCtyValue and projected "
                   "back: implied type, cty value and the returned Go value must equal the references. (c) every generated cty value (known, null, unknown, "
                   "nested unknown, marked) x 19 target Go types: no panic for unmarked values, unknown / null-into-non-nilable / shape mismatch refused. "
                   "Non-trivial = successful decode / round trip.")
    c.assumptions = ["the stored float for a non-representable-exactly number (rounding) is not judged", "struct tags beyond the fixed struct are not explored"]
    c.build_harness()
    if a.replay:
        rec = c.load_replay(a.replay)
        e = rec["event"]
        vec = c.path("replay.ndjson")
        if e["ev"] == "gnum":
            line = {"k": "gnum", "n": e["n"], "kinds": [e["kind"]]}
        elif e["ev"] == "grt":
            line = {"k": "grt", "gv": e["gv"]}
        else:
            line = {"k": "ginto", "vals": [e["v"]], "gts": [e["gt"]]}
        open(vec, "w").write(json.dumps(line) + "\n")
        out = c.path("replay-ev.ndjson")
        c.harness("gobridge", out, inp=vec)
        c.trace("GoBridgeTrace", out, nshards=1, dedupe=False)
        return
    gen = c.path("gbvec.ndjson")
    c.gen_parallel([("GoBridgeGen", {"VTIER": c.tier, "VOUT": gen})])
    ev = c.path("gbev.ndjson")
    c.harness("gobridge", ev, inp=gen)
    c.sample_events(ev, 1, lambda l: '"ev":"gnum"' in l and '"ok":true' in l and '"lm"' in l)
    c.sample_events(ev, 1, lambda l: '"ev":"grt"' in l and '"struct1"' in l)
    c.trace("GoBridgeTrace", ev)
    c.extra["exhaustive"] = True
