"""C13 - collection, set and sequence functions match reference semantics."""
from checks.stdfam import run_std, replay_std
FNS = ["length", "element", "index", "hasindex", "lookup", "contains", "keys", "values", "merge", "concat", "slice", "chunklist", "distinct",
       "compact", "reverselist", "sort", "zipmap", "range", "coalesce", "coalescelist", "setunion", "setintersection", "setsubtract",
       "setsymmetricdifference", "sethaselement", "flatten", "setproduct"]

def run(c, a):
    c.rule_text = ("StdlibRef.tla gives, over TLA+ sequences / functions / sets, the result value, result type and reject conditions of length, element "
                   "(wrap-around incl. negative indices), index, hasindex, lookup, contains, keys, values, merge, concat, slice, chunklist, distinct, "
                   "compact, reverselist, sort, zipmap, range, coalesce, coalescelist and the set functions. TLC enumerates wholly known argument "
                   "lists from pools chosen by the declared parameter constraints (indices / sizes / steps -2.5..10 incl. fractions and infinity; "
                   "empty and non-empty collections, duplicates, nulls; list/tuple and map/object forms); the harness runs the real functions; TLC "
                   "compares each result with SRef (ResultIsRef, FailsOnlyOutsideDomain, FailsOutsideDomain). Non-trivial = decided by the reference and successful.")
    c.assumptions = ["mixed argument types needing unification (except coalesce on primitives) and setproduct with tuple arguments are outside the reference (UNDEF, not judged)",
                     "attribute names / map keys are single characters"]
    c.build_harness()
    if a.replay:
        rec = c.load_replay(a.replay)
        from checks.stdfam import replay_std as rs
        import json
        e = rec["event"]
        vec = c.path("replay-vec.ndjson")
        open(vec, "w").write(json.dumps({"k": "call", "api": e["api"], "xs": [e["x"]], "a": e["a"], "vs": []}) + "\n")
        out = c.path("replay-ev.ndjson")
        c.harness("ops", out, inp=vec)
        c.trace("RefTrace", out, nshards=1, dedupe=False)
        return
    ev_generic = run_std(c, "ref", only=set(FNS))
    jobs, outs = [], []
    for fn in FNS:
        out = c.path("c13vec-%s.ndjson" % fn)
        jobs.append(("C13Gen", {"VFN": fn, "VTIER": c.tier, "VOUT": out}))
        outs.append(out)
    g = c.gen_parallel(jobs)
    c.note("domain-shaped argument lists", g)
    pairs = [(o, o.replace("c13vec-", "c13ev-")) for o in outs]
    c.harness_parallel("ops", pairs)
    ev = c.concat([p[1] for p in pairs] + [ev_generic], c.path("c13events.ndjson"))
    c.sample_events(ev, 2, lambda l: '"fn":"slice"' in l and '"ok":true' in l)
    c.sample_events(ev, 1, lambda l: '"fn":"element"' in l and '"ok":true' in l)
    c.trace("RefTrace", ev)
