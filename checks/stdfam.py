"""Shared pipeline for standard-library function checks (C11, C12, C04 function part, C13, C14)."""
import json, os
SKIP = set()     # (byteslen, bytesslice take the standard library's byte-buffer capsule: abstract capsule "bytes")

def signatures(c):
    sig = c.path("sigs.ndjson")
    c.harness("sigs", sig)
    names = [json.loads(l)["name"] for l in open(sig)]
    return sig, names

def run_std(c, mode, prop=None, only=None):
    sig, names = signatures(c)
    jobs, outs, fns = [], [], []
    sel = os.environ.get("VERIF_FNS")
    for i, n in enumerate(names):
        if n in SKIP or (only and n not in only) or (sel and n not in sel.split(",")):
            continue
        out = c.path("svec-%s-%s.ndjson" % (mode, n))
        jobs.append(("StdlibGen", {"VSIGS": sig, "VFNI": i + 1, "VMODE": mode, "VTIER": c.tier, "VOUT": out}))
        outs.append(out)
        fns.append(n)
    g = c.gen_parallel(jobs, seeds=[c.seed * 1000 + i for i in range(len(jobs))])
    c.note("%s: %d argument lists over %d functions" % (mode, g, len(fns)))
    pairs = [(o, o.replace("svec-", "sev-")) for o in outs]
    args = ["prop=" + prop] if prop else []
    c.harness_parallel("ops", pairs, args=args)
    ev = c.concat([p[1] for p in pairs], c.path("sevents-%s.ndjson" % mode))
    c.extra["functions"] = len(fns)
    return ev

def replay_std(c, rec):
    from checks.opsfam import replay_ops
    e = rec["event"]
    vec = c.path("replay-vec.ndjson")
    if e["ev"] == "call":
        line = {"k": "call", "api": e["api"], "xs": [e["x"]], "a": e["a"], "vs": []}
    elif e.get("rel") == "unmark":
        line = {"k": "mark", "api": e["api"], "xs": [e["x"]], "a": e["a"], "vs": [e["a"]]}
    else:
        line = {"k": "weak", "api": e["api"], "xs": [e["x"]], "a": e["a"], "vs": [e["b"]]}
    open(vec, "w").write(json.dumps(line) + "\n")
    out = c.path("replay-ev.ndjson")
    args = ["prop=" + e["prop"]] if "prop" in e else []
    c.harness("ops", out, inp=vec, args=args)
    c.trace("StdlibTrace", out, nshards=1, dedupe=False)
