"""C07 - type equality, conformance and type serialization obey their algebra."""

def run(c, a):
    c.rule_text = ("TLC enumerates the bounded type universe (U1 quick: all types of depth<=1 over 6 leaf kinds incl. "
                   "dynamic and 2 capsules, tuples len<=2, objects over {a,b} with every optional subset; U2 thorough: "
                   "U1 plus selected depth-2 wrappings); the harness builds every type, observes Equals/TestConformance/"
                   "HasDynamicTypes/WithoutOptionalAttributesDeep/JSON round trip for every type and every ordered pair; "
                   "TLC judges each observation against TEquals/Conforms/HasDyn/StripOpt. Non-trivial = an ordered pair of "
                   "different definitions that is equal, conforming or equal-after-stripping (the positive side of an iff).")
    c.assumptions = ["projection of types through public accessors (AttributeTypes, OptionalAttributes, ElementType, TupleElementTypes) is faithful",
                     "capsule types c1,c2 stand for all capsule types"]
    c.build_harness()
    c.tlc_mc("C07MC", workers=8)
    uni = "U2" if c.tier == "thorough" else "U1"
    gen = c.path("types.ndjson")
    n = c.tlc_gen("C07Gen", {"VUNIVERSE": uni, "VOUT": gen})
    c.note("generated", n, "types")
    ev = c.path("events.ndjson")
    c.harness("c07", ev, inp=gen)
    c.sample_events(ev, 1, lambda l: '"tone"' in l)
    c.sample_events(ev, 2, lambda l: '"tpair"' in l and '"eq":true' in l)
    c.trace("C07Trace", ev, env={"VGEN": gen}, header=lambda l: '"ev":"tdef"' in l, dedupe=False)
    # the per-type observations once more by a fresh process that visits the types in the opposite order
    ev2 = c.path("events-rev.ndjson")
    c.harness("c07", ev2, inp=gen, args=["rev=1"])
    c.trace("C07Trace", ev2, env={"VGEN": gen}, header=lambda l: '"ev":"tdef"' in l, dedupe=False)
    c.extra["exhaustive"] = True
    c.extra["types"] = n
