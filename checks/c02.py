"""C02 - core operations compute the documented result on known values."""
from checks.opsfam import run_ops, replay_ops, ALL_OPS

def run(c, a):
    c.rule_text = ("TLC enumerates every wholly known operand tuple of the bounded universe per operation (plus ill-typed tuples, "
                   "out-of-range / fractional / negative / null keys); the harness executes the real operation under every physical "
                   "representation of the operands (NumberIntVal / NumberFloatVal / 512-bit parsed / 24-bit / singletons, -0, NFD input "
                   "strings); TLC compares the projected result with the reference semantics Ref (exact rational arithmetic, truncated-division "
                   "modulo, signed infinities, truth tables, member lookup), its result type, and requires rejection where Ref rejects "
                   "(Index succeeds exactly when HasIndex is true). Non-trivial = call succeeded.")
    c.assumptions = ["numbers restricted to the small dyadic lattice, both infinities and named landmarks; results off the lattice are compared only when exactly representable",
                     "Project/Concretize faithful"]
    c.build_harness()
    if a.replay:
        return replay_ops(c, c.load_replay(a.replay))
    c.tlc_mc("OpsMC", workers=8, env={"VTIER": "quick"})
    ev = run_ops(c, "call", ALL_OPS)
    c.sample_events(ev, 3, lambda l: '"ok":true' in l)
    c.trace("OpsTrace", ev, dedupe=False)
    c.extra["exhaustive"] = True
