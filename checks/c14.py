"""C14 - number, string, formatting and encoding functions match reference semantics."""
import json
FNS = ["regex", "regexall", "regexreplace", "ceil", "floor", "int", "signum", "abs", "negate", "add", "subtract", "multiply", "divide", "modulo", "lessthan", "greaterthan",
       "lessthanorequalto", "greaterthanorequalto", "equal", "notequal", "pow", "log", "min", "max", "parseint",
       "upper", "lower", "title", "strlen", "reverse", "chomp", "trimspace", "substr", "join", "split", "indent", "trim", "trimprefix",
       "trimsuffix", "replace", "format", "formatlist", "jsonencode", "jsonencode>jsondecode", "csvdecode", "formatdate", "timeadd"]

def run(c, a):
    c.rule_text = ("TextRef.tla gives, over exact rationals and sequences of abstract characters, the result of the numeric functions (arithmetic and "
                   "comparison wrappers, abs, ceil, floor, int, signum, min, max, pow and log where the result is exactly representable, parseint), of "
                   "the string functions (upper, lower, title, strlen, reverse, substr, join, split, chomp, indent, trimspace, trim, trimprefix, "
                   "trimsuffix, replace) with positions counted in grapheme clusters computed by the specification's own segmentation rules "
                   "(CR LF, combining mark, emoji modifier, ZWJ sequence, regional-indicator pairs), of format / formatlist (the verb grammar "
                   "%[flags][width][.precision][[index]]verb is parsed by a recursive TLA+ operator; verbs s d v q t, %%, argument-index threading, "
                   "too-few / too-many arguments, unsupported verbs), of jsonencode (exact text), jsondecode after jsonencode (JSON-implied value) "
                   "and csvdecode (unquoted tables). TLC enumerates domain-shaped wholly known argument lists, the harness runs the real functions, "
                   "TLC compares each result (ResultIsRef, FailsOnlyOutsideDomain, FailsOutsideDomain). Non-trivial = decided by the reference and successful.")
    c.assumptions = ["numeric results are judged only where exactly representable on the specification's rationals (float64 rounding of log / pow in general is not decided)",
                     "float verbs %e %f %g and integer verbs %b %o %x, regex functions, title on non-ASCII letters, formatdate / timeadd calendars beyond the modelled verbs are UNDEF (not judged)",
                     "strings are over a 45-character abstract alphabet; strings whose normal form differs from the spelled one are not generated"]
    c.build_harness()
    if a.replay:
        rec = c.load_replay(a.replay)
        e = rec["event"]
        vec = c.path("replay-vec.ndjson")
        open(vec, "w").write(json.dumps({"k": "call", "api": e["api"], "xs": [e["x"]], "a": e["a"], "vs": []}) + "\n")
        out = c.path("replay-ev.ndjson")
        c.harness("ops", out, inp=vec)
        c.trace("TextTrace", out, nshards=1, dedupe=False)
        return
    import os
    sel = os.environ.get("VERIF_FNS")
    jobs, outs = [], []
    for i, fn in enumerate(FNS):
        if sel and fn not in sel.split(","):
            continue
        out = c.path("c14vec-%d.ndjson" % i)
        jobs.append(("C14Gen", {"VFN": fn, "VTIER": c.tier, "VOUT": out}))
        outs.append(out)
    g = c.gen_parallel(jobs, seeds=[c.seed * 1000 + i for i in range(len(jobs))])
    c.note("domain-shaped argument lists", g)
    pairs = [(o, o.replace("c14vec-", "c14ev-")) for o in outs]
    c.harness_parallel("ops", pairs)
    ev = c.concat([p[1] for p in pairs], c.path("c14events.ndjson"))
    c.sample_events(ev, 2, lambda l: '"fn":"format"' in l and '"ok":true' in l)
    c.sample_events(ev, 1, lambda l: '"fn":"substr"' in l and '"ok":true' in l)
    c.trace("TextTrace", ev, timeout=3000)
    c.extra["functions"] = len(jobs)
    # anti-vacuity: every function, and every format verb of the reference, must have been decided at least once
    if not sel:
        from vlib.core import Inconclusive
        keys = [("jsonroundtrip" if f == "jsonencode>jsondecode" else f) for f in FNS] + ["fmts", "fmtd", "fmtv", "fmtq", "fmtt"]
        dead = [k for k in keys if c.counts.get(k, 0) == 0]
        if dead:
            raise Inconclusive("the reference decided no call of: %s (a vacuous check proves nothing)" % ", ".join(dead))
