"""C20 - values and types are immutable and safe to share between goroutines."""
import json, os, subprocess
from checks.opsfam import run_ops, replay_ops, ALL_OPS

def run(c, a):
    c.rule_text = ("(1) Sessions (Session.tla): a store of live values and a history of steps that call accessors and then mutate the Go data they returned "
                   "(AsBigFloat, Marks, Unmark, UnmarkDeep(WithPaths), AsValueSlice/Map/Set, Range bounds, walk paths), re-use Go slices / maps / value "
                   "sets / refinement builders after handing them to a constructor, copy-and-mutate value sets, refine twice, and derive values; TLC "
                   "emits random histories (simulation), the harness replays them and re-projects EVERY live value after every step; the trace spec checks "
                   "the action property Immutable (no existing value changed) on each step. (2) Purity: every operation call of the bounded universe is "
                   "repeated on the same operands and across physical representations (Pure, RepInvariant), also on weakened operands. (3) Sharing between "
                   "goroutines: the same calls are executed by 8 goroutines released together on shared operand values in a harness built with the Go race "
                   "detector; TLC requires the concurrent results to equal the sequential result and any race report is a violation. (4) ValueSet/PathSet "
                   "copy isolation is judged in the C03/C19 state-machine traces (rules C20.SetIsolation, C20.PathSetIsolation), re-run here. (5) Types: every type of the C07 universe must report the same definition after the type operations ran on it (C20.TypeImmutable). "
                   "Non-trivial = applied mutating step / successful call.")
    c.assumptions = ["documented ownership transfers (NumberVal's *big.Float, Tuple / Object type constructors' slices and maps, AttributeTypes results) are not mutation targets",
                     "the race detector observes the executed pairs of operations; interleavings are not enumerated"]
    c.build_harness()
    if a.replay:
        rec = c.load_replay(a.replay)
        e = rec["event"]
        if e.get("ev") == "sstep":
            vec = c.path("replay.ndjson")
            open(vec, "w").write(json.dumps(rec["ctx"]) + "\n")
            out = c.path("replay-ev.ndjson")
            c.harness("session", out, inp=vec)
            c.trace("SessionTrace", out, nshards=1, dedupe=False, boundary=lambda l: '"ev":"sstart"' in l)
            return
        return replay_ops(c, rec)
    thorough = c.tier == "thorough"
    # (1) sessions
    beh = c.path("sess-beh.ndjson")
    depth = 6 if thorough else 4
    n = c.tlc_sim("Session", "SessionSim.cfg", beh, 12000 if thorough else 3000, depth + 1, env={"VDEPTH": depth})
    c.note("session histories", n)
    sev = c.path("sess-ev.ndjson")
    c.harness("session", sev, inp=beh)
    c.sample_events(sev, 2, lambda l: '"applied":true' in l and 'mutate' in l)
    c.trace("SessionTrace", sev, dedupe=False, boundary=lambda l: '"ev":"sstart"' in l, ctx_for=ctx_for)
    # (2) purity
    ev = run_ops(c, "call", ALL_OPS)
    c.trace("OpsTrace", ev, dedupe=False)
    # purity of calls on partly unknown operands (where evaluation order can leak into the answer)
    evw = run_ops(c, "weak", ["Equals", "NotEqual", "HasElement", "Index", "Length"] if thorough else ["Equals", "NotEqual"], prop="C01")
    c.trace("OpsTrace", evw)
    gen = c.path("types.ndjson")
    nt = c.tlc_gen("C07Gen", {"VUNIVERSE": "U2" if thorough else "U1", "VOUT": gen})
    # (3) goroutines under the race detector
    race = c.build_harness(race=True)
    # shared operands of standard-library calls (a few functions per family) and shared TYPES as well
    fjobs, fouts = [], []
    for mod, fns in (("C13Gen", ["merge", "setunion", "slice", "keys", "lookup", "zipmap"]), ("C14Gen", ["format", "jsonencode", "formatdate", "substr", "join"])):
        for fn in fns:
            o = c.path("race-fn-%s.ndjson" % fn)
            fjobs.append((mod, {"VFN": fn, "VTIER": "quick", "VOUT": o}))
            fouts.append(o)
    c.gen_parallel(fjobs)
    thin = c.path("race-fn-thin.ndjson")
    with open(thin, "w") as f:
        for o in fouts:
            for i, line in enumerate(open(o)):
                if i % 7 == c.seed % 7 and i < 1400:
                    f.write(line)
    vec = c.concat([c.path("vec-call-%s-0.ndjson" % api) for api in ALL_OPS] + [thin, c.path("types.ndjson")], c.path("race-vec.ndjson"))
    rout = c.path("race-ev.ndjson")
    rlog = c.path("race-log")
    res = c.harness("conc", rout, inp=vec, binpath=race, env={"GORACE": "exitcode=66 log_path=%s halt_on_error=0" % rlog}, ok_codes=(0, 66), timeout=1500)
    logs = [f for f in os.listdir(c.work) if f.startswith("race-log")]
    c.extra["race_reports"] = len(logs)
    if logs:
        outdir = os.path.join(os.environ.get("VERIF_OUT") or os.path.join(os.path.dirname(os.path.dirname(os.path.abspath(__file__))), "out"), c.pid)
        os.makedirs(outdir, exist_ok=True)
        dst = os.path.join(outdir, "race-report.txt")
        with open(dst, "w") as f:
            for lg in logs[:5]:
                f.write(open(os.path.join(c.work, lg)).read()[:20000])
        c.viol.append({"rule": "C20.DataRace", "event": {"ev": "race", "report": dst, "api": "goroutines"}, "module": "race detector"})
    c.sample_events(rout, 1, lambda l: '"conc"' in l)
    c.trace("ConcTrace", rout)
    # (5) types: every type of the bounded universe reports the same definition after Equals / TestConformance /
    #     WithoutOptionalAttributesDeep / JSON round trips ran on it (rule C20.TypeImmutable in C07Trace)
    tev = c.path("type-events.ndjson")
    c.harness("c07", tev, inp=gen, args=["stride=%d" % (5 if thorough else 40)])
    before = len(c.viol)
    c.trace("C07Trace", tev, env={"VGEN": gen}, header=lambda l: '"ev":"tdef"' in l, dedupe=False)
    c.viol[before:] = [v for v in c.viol[before:] if v["rule"].startswith("C20.")]
    c.note("types re-read after use", nt)
    # (6) conversion and unification: the converted value, the type list handed to Unify and the input types are re-read
    #     after the calls (rule C20.Immutable in the C08 / C09 trace specs; only C20.* rules are verdicts here)
    rt, asm = c.rule_text, c.assumptions
    import importlib
    for fam in ["c08", "c09", "c15", "c16"] + (["c10", "c19", "c18"] if thorough else []):
        c.note("re-read family", fam)
        importlib.import_module("checks." + fam).run(c, a)
    c.rule_text, c.assumptions = rt, asm
    # (4) copy isolation of mutable helper sets
    from checks import c03, c19
    import importlib
    c.note("value-set and path-set state machines")
    sm_only(c)

def sm_only(c):
    from checks.c03 import impl_predictions, POOLS
    import checks.c03 as c03
    beh = c.path("vset-beh.ndjson")
    n = c.tlc_sim("ValueSetMC", "ValueSetSim.cfg", beh, 1500, 10, env={"VDEPTH": 9})
    POOLS["vset"] = json.loads(open(beh).readline())["pool"]
    impl_predictions(c, beh)
    vev = c.path("vset-ev.ndjson")
    c.harness("vset", vev, inp=beh)
    c.trace("VSetTrace", vev, dedupe=False, boundary=lambda l: '"ev":"vreset"' in l, ctx_for=c03.ctx_for)

def ctx_for(lines, l):
    i = l - 1
    while i >= 0 and '"ev":"sstart"' not in lines[i]:
        i -= 1
    start = json.loads(lines[i])
    steps = [json.loads(x)["step"] for x in lines[i + 1:l]]
    return {"init": start["snap"], "steps": steps}
