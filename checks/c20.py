"""C20 - values and types are immutable and safe to share between goroutines."""
from checks.opsfam import run_ops, replay_ops, ALL_OPS

def run(c, a):
    c.rule_text = "WIP"
    c.build_harness()
    if a.replay:
        return replay_ops(c, c.load_replay(a.replay))
    ev = run_ops(c, "call", ALL_OPS)
    c.sample_events(ev, 3, lambda l: '"ok":true' in l)
    c.trace("OpsTrace", ev, dedupe=False)
