"""C19 - walk, transform and paths address exactly the members of a value."""
import json
POOLS = {}

def run(c, a):
    c.rule_text = ("Walk.tla defines the members of a value by path (VisitSet), path validity, SpecAt, ReplaceMember and MarkPaths. TLC enumerates "
                   "values of the bounded universe with null, unknown and marked members at every depth, every path of length <= 2 over 13 steps "
                   "(valid and invalid), and every (non-set) member replacement; the harness records Walk callbacks (with Path.Apply of each reported "
                   "path), an identity Transform, UnmarkDeepWithPaths/MarkWithPaths, Path.Apply and single-member replacing Transforms on the real "
                   "library; TLC judges EachMemberOnce, ParentsFirst, PathLeadsBack, IdentityTransform, TransformVisitsSamePaths, UnmarkRemarkRestores, "
                   "ApplyIffValid, ReplaceOnlyThere. PathSetSM.tla models PathSet as sets of paths over a pool of 12 colliding paths; simulated "
                   "behaviours are replayed on real PathSets and compared with the model after every step. Non-trivial = walk with members / "
                   "successful non-empty path application / replacement / state-changing PathSet step.")
    c.assumptions = ["attribute names and map keys are single characters; index keys from a fixed menu", "Project/Concretize faithful"]
    c.build_harness()
    if a.replay:
        rec = c.load_replay(a.replay)
        e = rec["event"]
        out = c.path("replay-ev.ndjson")
        vec = c.path("replay.ndjson")
        if e["ev"] == "pop":
            open(vec, "w").write(json.dumps(rec["ctx"]) + "\n")
            c.harness("pset", out, inp=vec)
            c.trace("PSetTrace", out, nshards=1, dedupe=False, boundary=lambda l: '"ev":"preset"' in l)
        else:
            line = {"vs": [e["root"]], "paths": [e["p"]] if e["ev"] == "apply" else [], "repls": [{"p": e["p"], "r": e["r"]}] if e["ev"] == "repl" else [], "base": e["root"]}
            open(vec, "w").write(json.dumps(line) + "\n")
            c.harness("walk", out, inp=vec)
            c.trace("WalkTrace", out, nshards=1, dedupe=False)
        return
    thorough = c.tier == "thorough"
    n = 16
    jobs, outs = [], []
    for i in range(n):
        out = c.path("wvec-%d.ndjson" % i)
        jobs.append(("WalkGen", {"VTIER": c.tier, "VSHARDI": i, "VSHARDN": n, "VOUT": out}))
        outs.append(out)
    g = c.gen_parallel(jobs)
    c.note("base values", g)
    pairs = [(o, o.replace("wvec-", "wev-")) for o in outs]
    c.harness_parallel("walk", pairs)
    ev = c.concat([p[1] for p in pairs], c.path("wevents.ndjson"))
    c.sample_events(ev, 1, lambda l: '"ev":"walk"' in l and '"m2"' in l)
    c.sample_events(ev, 1, lambda l: '"ev":"repl"' in l)
    c.trace("WalkTrace", ev)
    beh = c.path("pset-beh.ndjson")
    depth = 12 if thorough else 8
    nb = c.tlc_sim("PathSetSM", "PathSetSim.cfg", beh, 12000 if thorough else 2000, depth + 1, env={"VDEPTH": depth})
    c.note("pathset behaviours", nb)
    POOLS["pset"] = json.loads(open(beh).readline())["pool"]
    # histories predicted by the slice-level model of cty/set under sharing hypotheses (five single-index paths share one bucket)
    from checks.c03 import impl_predictions
    pool = POOLS["pset"]
    coll = [i + 1 for i, p in enumerate(pool) if len(p["p"]) == 1 and p["p"][0]["s"] == "idx" and p["rep"] == 0][:5]
    c.note("predicted isolation-breaking histories from SetImpl:", impl_predictions(c, beh, elems=coll, nocopy=True))
    pev = c.path("pset-ev.ndjson")
    c.harness("pset", pev, inp=beh)
    c.sample_events(pev, 1, lambda l: '"AddAllSteps"' in l)
    c.trace("PSetTrace", pev, dedupe=False, boundary=lambda l: '"ev":"preset"' in l, ctx_for=ctx_for)

    # paths built step by step: fan family (TLC-enumerated) + simulated behaviours of PathBuildSM
    fans = c.path("pbuild-fans.ndjson")
    nf = c.tlc_gen("PathBuildFans", {"VOUT": fans})
    bbeh = c.path("pbuild-beh.ndjson")
    nb2 = c.tlc_sim("PathBuildSM", "PathBuildSim.cfg", bbeh, 6000 if thorough else 1500, 10, env={"VDEPTH": 9})
    c.note("path-building behaviours", nf, "+", nb2)
    allb = c.concat([fans, bbeh], c.path("pbuild-all.ndjson"))
    bev = c.path("pbuild-ev.ndjson")
    c.harness("pbuild", bev, inp=allb)
    c.trace("PBuildTrace", bev, dedupe=False, boundary=lambda l: '"ev":"breset"' in l)

def ctx_for(lines, l):
    i = l - 1
    while i >= 0 and '"ev":"preset"' not in lines[i]:
        i -= 1
    ops = [json.loads(x)["o"] for x in lines[i + 1:l]]
    return {"beh": ops, "pool": POOLS.get("pset")}
