"""C05 - refinements only narrow, are faithful, and prefixes are continuation-safe."""
import json

def gen(c, depth, thin, nshards=16, tag="g"):
    jobs, outs = [], []
    for i in range(nshards):
        out = c.path("rvec-%s-%d.ndjson" % (tag, i))
        jobs.append(("RefineGen", {"VDEPTH": depth, "VTHIN": "1" if thin else "0", "VSHARDI": i, "VSHARDN": nshards, "VOUT": out, "VTIER": c.tier}))
        outs.append(out)
    c.gen_parallel(jobs)
    pairs = [(o, o.replace("rvec-", "rev-")) for o in outs]
    res = c.harness_parallel("refine", pairs)
    c.note("recorded", sum(r.get("events", 0) for r in res), "builder events (%s)" % tag)
    return [p[1] for p in pairs]

def is_start(line):
    return '"ev":"rstart"' in line

def run(c, a):
    c.rule_text = ("Refine.tla models the builder as a state machine (orig, model range, constraints said, status); TLC checks on it that the "
                   "model range is exactly orig's range intersected with the accepted constraints (Faithful), that it only narrows (action "
                   "property Narrowing) and that a rejected call had no admitted candidate left. TLC then enumerates every maximal behaviour "
                   "(call sequence up to the depth bound, or ending at the first rejected call) for each orig (unknown of every refinable kind, "
                   "pre-refined, known, null, DynamicVal); the harness replays each against the real RefinementBuilder calling NewValue() and "
                   "Range().Includes(candidate) after every call; the trace spec steps the model alongside and judges TypeUnchanged, ExactRange, "
                   "CollapseExact, RejectContradiction, AcceptConsistent, NeverExcludesAdmitted, NeverAdmitsExcluded, DynamicIgnores, KnownUnchanged. "
                   "Non-trivial = accepted builder call.")
    c.assumptions = ["bound arguments from a lattice menu, +-infinity only as inclusive bounds; calls foreign to the type and bounds on a known null are recorded, not judged",
                     "Project/Concretize faithful"]
    c.build_harness()
    if a.replay:
        rec = c.load_replay(a.replay)
        if rec["event"].get("ev") == "sp":
            vec = c.path("replay.ndjson")
            with open(vec, "w") as f:
                f.write(json.dumps({"ps": [rec["event"]["p"]], "cs": [rec["event"]["c"]]}) + "\n")
            out = c.path("replay-ev.ndjson")
            c.harness("safeprefix", out, inp=vec)
            c.trace("SafePrefixTrace", out, nshards=1, dedupe=False)
            return
        vec = c.path("replay.ndjson")
        with open(vec, "w") as f:
            f.write(json.dumps(rec["ctx"]) + "\n")
        out = c.path("replay-ev.ndjson")
        c.harness("refine", out, inp=vec)
        c.trace("RefineTrace", out, nshards=1, dedupe=False, boundary=is_start)
        return
    c.tlc_mc("RefineMC", workers=8)
    files = gen(c, 3, True, tag="d3thin")
    if c.tier == "thorough":
        files += gen(c, 3, False, tag="d3full")
        files += gen(c, 4, True, tag="d4thin")
    else:
        files += gen(c, 2, False, tag="d2full")
    ev = c.concat(files, c.path("events.ndjson"))
    c.sample_events(ev, 1, lambda l: '"rstart"' in l)
    c.sample_events(ev, 3, lambda l: '"rcall"' in l and '"panic":false' in l and '"lo"' in l)
    c.trace("RefineTrace", ev, boundary=is_start, dedupe=False, ctx_for=ctx_for)
    # --- Range() of arbitrary values (known, null, unknown, structures holding unknown members)
    rvec = c.path("rangeof-vec.ndjson")
    nr = c.tlc_gen("RangeOfGen", {"VTIER": c.tier, "VOUT": rvec})
    rev = c.path("rangeof-ev.ndjson")
    c.harness("rangeof", rev, inp=rvec)
    c.note("range-of lines", nr)
    c.trace("RangeOfTrace", rev)
    # --- continuation safety of the safe prefix constructor
    combos = [(2, 1, "full"), (3, 1, "small")] if c.tier != "thorough" else [(3, 1, "full"), (2, 2, "full"), (4, 1, "small")]
    jobs, outs = [], []
    for pm, cm, al in combos:
        out = c.path("spvec-%d-%d-%s.ndjson" % (pm, cm, al))
        jobs.append(("SafePrefixGen", {"VPMAX": pm, "VCMAX": cm, "VALPHA": al, "VOUT": out}))
        outs.append(out)
    n = c.gen_parallel(jobs)
    pairs = [(o, o.replace("spvec-", "spev-")) for o in outs]
    c.harness_parallel("safeprefix", pairs)
    sp = c.concat([p[1] for p in pairs], c.path("spevents.ndjson"))
    c.note("safe-prefix pairs", n)
    c.sample_events(sp, 2, lambda l: '"acute"' in l and '"rec":["' in l)
    c.trace("SafePrefixTrace", sp)
    c.extra["exhaustive"] = True

def ctx_for(lines, l):
    """the behaviour (orig + call sequence up to the rejected line) as a generator line for replay"""
    i = l - 1
    while i >= 0 and '"ev":"rstart"' not in lines[i]:
        i -= 1
    start = json.loads(lines[i])
    calls = [json.loads(x)["call"] for x in lines[i + 1:l]]
    return {"orig": start["orig"], "cands": start["cands"], "seqs": [calls]}
