"""C17 - decoders are safe on arbitrary input: error or conforming value."""
import json, os

def run(c, a):
    c.rule_text = ("Decoders.tla states the outcome predicate of every decoder call (no panic; a returned value is well-formed and its type conforms to "
                   "the requested type; a returned type is well-formed; allocation <= 4 MiB + 64 x input size; a refinement map that no value can "
                   "satisfy or that does not apply to the target type must be rejected). TLC enumerates INPUTS AS TOKEN TREES: (A) every unknown-value "
                   "refinement map of up to 2 entries over keys 1-6 and an unknown key, with well-typed and ill-typed entry values, duplicates, mutually "
                   "contradictory entries and lying map lengths x 6 targets; (B) MessagePack trees of depth <= 2 over 18 atoms (nil, ints, floats incl. "
                   "NaN/Inf, str, bin, unknown extensions, foreign / oversize / truncated extensions), arrays and maps with truthful and lying length "
                   "fields (2, 70000, 2^31-1), non-string and duplicate keys, dynamic wrappers with valid and invalid type JSON x 15 targets; (C) JSON "
                   "documents (duplicate keys, {value,type} wrappers with invalid types) x 15 targets and type descriptions (valid and invalid) for "
                   "UnmarshalType. The harness turns trees into bytes and additionally applies 1-4 seeded byte-level mutations (flip, insert, delete, "
                   "truncate, length-marker overwrite, splice) to valid encodings of TLC-generated values, plus raw random bytes; each decoder runs "
                   "in worker processes (a crash of a worker is a violation). Non-trivial = accepted input or input that must be rejected.")
    c.assumptions = ["byte-level mutants are explored by the seeded harness, not enumerated by TLC (outcome predicate only)",
                     "allocation is runtime.MemStats.TotalAlloc delta around the call (KiB)"]
    c.build_harness()
    if a.replay:
        rec = c.load_replay(a.replay)
        e = rec["event"]
        if e["src"] in ("bytes", "random") or e.get("ev") == "crash":
            raise SystemExit("byte-level witnesses are replayed by re-running the check with the same VERIF_SEED (the hex field of the event is the input)")
        vec = c.path("replay.ndjson")
        if e["dec"].startswith("msgpack"):
            line = {"k": "mp", "tok": e["src"], "targets": [e.get("target", {"k": "dynamic"})], "mustfail": [e["mustfail"]]}
        elif e["dec"] == "json.UnmarshalType":
            line = {"k": "jt", "doc": e["src"]}
        else:
            line = {"k": "js", "doc": e["src"], "targets": [e.get("target", {"k": "dynamic"})]}
        open(vec, "w").write(json.dumps(line) + "\n")
        out = c.path("replay-ev.ndjson")
        c.harness("dec", out, inp=vec)
        c.trace("DecTrace", out, nshards=1, dedupe=False)
        return
    jobs, outs = [], []
    for fam in ("rf", "struct", "json"):
        out = c.path("dvec-%s.ndjson" % fam)
        jobs.append(("DecGen", {"VFAM": fam, "VTIER": c.tier, "VOUT": out}))
        outs.append(out)
    # valid encodings to mutate: the value/constraint lines of the msgpack round-trip generator
    n = 8
    for i in range(n):
        out = c.path("dvec-bytes-%d.ndjson" % i)
        jobs.append(("MsgpackGen", {"VTIER": "quick", "VSHARDI": i, "VSHARDN": n, "VOUT": out}))
        outs.append(out)
    c.gen_parallel(jobs)
    # split the token files into worker shards; mark the byte-mutation lines
    shards = []
    for o in outs:
        lines = open(o).read().splitlines()
        if "bytes" in os.path.basename(o):
            lines = [json.dumps(dict(json.loads(l), k="bytes")) for l in lines]
        per = max(1, (len(lines) + 7) // 8) if "bytes" not in os.path.basename(o) else len(lines)
        for k in range(0, len(lines), per):
            p = c.path("dshard-%d.ndjson" % len(shards))
            open(p, "w").write("\n".join(lines[k:k + per]) + "\n")
            shards.append(p)
    evs = []
    from concurrent.futures import ThreadPoolExecutor
    def work(p):
        out = p.replace("dshard-", "dev-")
        try:
            c.harness("dec", out, inp=p, timeout=900)
            return out, None
        except Exception as ex:      # worker died: fatal error / out of memory / timeout
            return out, str(ex)[-1500:]
    with ThreadPoolExecutor(max_workers=16) as ex:
        res = list(ex.map(work, shards))
    for (out, err), p in zip(res, shards):
        if err:
            done = sum(1 for _ in open(out)) if os.path.exists(out) else 0
            c.viol.append({"rule": "C17.ProcessCrash", "module": "worker",
                           "event": {"ev": "crash", "api": "decoder worker", "shard_line_after_events": done, "stderr": err, "src": "worker", "input_file": p}})
        if os.path.exists(out):
            evs.append(out)
    ev = c.concat(evs, c.path("devents.ndjson"))
    c.sample_events(ev, 1, lambda l: '"unkrf"' in l and '"ok":true' in l)
    c.sample_events(ev, 1, lambda l: '"src":"bytes"' in l and '"ok":true' in l)
    c.trace("DecTrace", ev)
