"""C10 - the function-call protocol enforces every declared parameter contract."""
import json

def run(c, a):
    c.rule_text = ("FuncCall.tla states the call protocol (count check, per-parameter null / dynamic / conformance / mark handling, type callback, "
                   "unknown short-circuit, implementation callback, mark re-application, conformance assertion, result refinement) as guards over "
                   "the observed callback sequence and outcome. TLC enumerates specifications exhaustively for one parameter (positional or variadic; "
                   "3 type constraints x all 16 flag combinations; callback behaviours ok/dynamic/error/panic x conforming/non-conforming/error/panic/unknown; "
                   "result refinement on/off) with every argument list of length 0..2 over 10 argument kinds (conforming, non-conforming, null, unknown, "
                   "DynamicVal, dynamically-typed null, marked at top / deep, marked unknown, marked null), and RandomSubset-samples the full product "
                   "with 0..2 positional + optional variadic parameters and lists up to length 4. The harness builds the real function.Spec with spy "
                   "callbacks recording what they receive; TLC judges each recorded call. Non-trivial = a callback ran.")
    c.assumptions = ["callback behaviours are a fixed menu; RefineResult is NotNull", "Project faithful; spy callbacks record every invocation"]
    c.build_harness()
    if a.replay:
        rec = c.load_replay(a.replay)
        e = rec["event"]
        vec = c.path("replay.ndjson")
        open(vec, "w").write(json.dumps({"spec": e["spec"], "argss": [e["args"]]}) + "\n")
        out = c.path("replay-ev.ndjson")
        c.harness("fcall", out, inp=vec)
        c.trace("FuncTrace", out, nshards=1, dedupe=False)
        return
    thorough = c.tier == "thorough"
    nsh = 8 if c.tier == "thorough" else 2
    jobs = [("FuncGen", {"VFAM": "one", "VTIER": c.tier, "VSHARDI": k, "VSHARDN": nsh, "VOUT": c.path("fvec-one%d.ndjson" % k)}) for k in range(nsh)]
    nsamp = 8 if thorough else 4
    for i in range(nsamp):
        jobs.append(("FuncGen", {"VFAM": "sample", "VN": 6000 if thorough else 2500, "VTIER": c.tier, "VOUT": c.path("fvec-s%d.ndjson" % i), "VSEEDX": c.seed * 100 + i}))
    # RandomSubset draws from TLC's -seed: pass distinct seeds per process
    def one(job, i):
        return job
    n = c.gen_parallel(jobs, seeds=[c.seed * 100 + i for i in range(len(jobs))])
    c.note("specification lines", n)
    pairs = [(j[1]["VOUT"], j[1]["VOUT"].replace("fvec-", "fev-")) for j in jobs]
    c.harness_parallel("fcall", pairs)
    ev = c.concat([p[1] for p in pairs], c.path("fevents.ndjson"))
    c.sample_events(ev, 2, lambda l: '"cb":"impl"' in l and '"m1"' in l)
    c.sample_events(ev, 1, lambda l: '"idx"' in l)
    c.trace("FuncTrace", ev)
