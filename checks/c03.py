"""C03 - equality is a coherent equivalence that agrees with hashing and sets."""
import json
POOLS = {}

def run(c, a):
    c.rule_text = ("(1) TLC emits, per type of the bounded universe, a group of values (numbers: lattice, infinities, width landmarks and decimal "
                   "texts held at 24/53/64/512 bits); the harness builds several physical variants of each and records the complete n x n matrices "
                   "of RawEquals, Equals, same-Hash, LessThan, GreaterThan; TLC checks reflexivity, symmetry, transitivity, nulls equal, "
                   "Equals<=>RawEquals on wholly known same-type values, number trichotomy and equal=>same hash on the whole relation. "
                   "(2) SetVal is called on every permutation (and mixed representations) of TLC-generated member lists: one result, distinct members only. "
                   "(3) ValueSetSM.tla models three ValueSet slots as bags of equivalence classes under Add/Remove/Has/Copy/Union/Intersection/Subtract/"
                   "SymmetricDifference/SetValFromValueSet round trip; TLC checks the model's algebra exhaustively and emits random behaviours (simulation); "
                   "the harness replays them on real ValueSets logging the members of every set after every step; the trace spec steps the model alongside. "
                   "Non-trivial = pairs of distinct physical values that are equal / steps that change a set.")
    c.assumptions = ["pool of 10 number elements in 6 classes incl. 3 unknowns (unknown members never coalesce)", "Project/Concretize faithful"]
    c.build_harness()
    if a.replay:
        rec = c.load_replay(a.replay)
        e = rec["event"]
        out = c.path("replay-ev.ndjson")
        if e.get("ev") == "vop":
            vec = c.path("replay.ndjson")
            open(vec, "w").write(json.dumps(rec["ctx"]) + "\n")
            c.harness("vset", out, inp=vec)
            c.trace("VSetTrace", out, nshards=1, dedupe=False, boundary=lambda l: '"ev":"vreset"' in l)
        else:
            raise SystemExit("replay of group events: rerun the check (groups are regenerated deterministically)")
        return
    thorough = c.tier == "thorough"
    # (1)+(2)
    gen = c.path("eqvec.ndjson")
    c.gen_parallel([("EqLawsGen", {"VOUT": gen, "VTIER": c.tier})])
    ev = c.path("eqev.ndjson")
    c.harness("eqlaws", ev, inp=gen)
    c.sample_events(ev, 1, lambda l: '"setperm"' in l)
    c.trace("EqLawsTrace", ev, dedupe=False, heap="6g")
    # (3)
    c.tlc_mc("ValueSetMC", cfg="ValueSetMC.cfg", workers=8, env={"VDEPTH": 4 if thorough else 3})
    beh = c.path("vset-beh.ndjson")
    depth = 14 if thorough else 9
    n = c.tlc_sim("ValueSetMC", "ValueSetSim.cfg", beh, 20000 if thorough else 2500, depth + 1, env={"VDEPTH": depth})
    c.note("behaviours", n)
    POOLS["vset"] = json.loads(open(beh).readline())["pool"]
    predicted = impl_predictions(c, beh)
    c.note("predicted isolation-breaking histories from SetImpl:", predicted)
    vev = c.path("vset-ev.ndjson")
    c.harness("vset", vev, inp=beh)
    c.sample_events(vev, 2, lambda l: '"vop"' in l and '"Union"' in l)
    c.trace("VSetTrace", vev, dedupe=False, boundary=lambda l: '"ev":"vreset"' in l, ctx_for=ctx_for)

def ctx_for(lines, l):
    i = l - 1
    while i >= 0 and '"ev":"vreset"' not in lines[i]:
        i -= 1
    ops = [json.loads(x)["o"] for x in lines[i + 1:l]]
    return {"beh": ops, "pool": POOLS.get("vset")}

def impl_predictions(c, beh_path, limit=40, elems=None, nocopy=False):
    """SetImpl.tla (Go slices made explicit) predicts, under hypotheses about where two sets might share a bucket
    slice (Copy, Union) or touch a shared array in place (Remove), histories in which acting on one set changes
    another; they are appended to the behaviours replayed on the real sets (same trace spec).  elems: pool indices
    of five mutually different members of ONE hash bucket."""
    first = json.loads(open(beh_path).readline())
    pool = first["pool"]
    if elems is None:
        elems = [i + 1 for i, p in enumerate(pool) if p["unk"]]
    c.tlc_mc("SetImpl", cfg="SetImplFixed.cfg", workers=8)     # the repaired algorithm isolates derived sets (design level)
    total = 0
    with open(beh_path, "a") as f:
        for hyp in (("union", "union+remove") if nocopy else ("copy", "union", "copy+remove", "union+remove")):
            env = {"VHYP": hyp}
            if nocopy:
                env["VNOCOPY"] = "1"
            preds = c.tlc_emit("SetImpl", "SetImpl.cfg", env=env, limit=limit)
            for p in preds:
                b = json.loads(p)["beh"]
                for o in b:
                    if "e" in o:
                        o["e"] = elems[o["e"] - 1]
                f.write(json.dumps({"beh": b, "pool": pool, "predicted": hyp}) + "\n")
            total += len(preds)
    return total
