"""C01 - operations on unknown values are sound approximations, never spontaneous."""
from checks.opsfam import run_ops, replay_ops, ALL_OPS

def run(c, a):
    c.rule_text = ("TLC enumerates, per operation method (21), every well-typed operand tuple of the bounded value universe "
                   "(Values.tla: numbers on a quarter lattice plus both infinities, strings, booleans, lists/sets/maps/tuples/objects "
                   "to depth 2 with null members) and, for each, the set of weakenings (Weak1/WeakN: any position at any depth replaced by an "
                   "unknown from the refinement menu that is true of the replaced part; DynamicVal at operand level). The harness runs the real "
                   "operation on the concrete and on the weakened tuple; TLC judges every recorded pair with WeakPremise (Admits(weak, conc)), "
                   "NoNewFailure, ResultAdmits (Admits(result_weak, result_conc)), KnownInKnownOut, NeverNull. "
                   "Non-trivial = concrete call succeeded and at least one position was weakened.")
    c.assumptions = ["Project/Concretize (harness) are faithful; premises are re-decided by TLC on the projected operands actually used",
                     "bounded universe: collection width <= 2, depth <= 2, quick tier weakens one position per operand (plus a thin two-sided menu), thorough up to two"]
    c.build_harness()
    if a.replay:
        return replay_ops(c, c.load_replay(a.replay))
    c.tlc_mc("OpsMC", workers=8, env={"VTIER": "quick"})
    ev = run_ops(c, "weak", ALL_OPS, prop="C01", scale=(2 if c.tier == "thorough" else 1))
    c.sample_events(ev, 2, lambda l: '"st":"unk"' in l)
    c.trace("OpsTrace", ev)
    ev2 = run_ops(c, "call", ALL_OPS)
    c.trace("OpsTrace", ev2, dedupe=False)
