"""C11 - standard functions are total and their predicted types are sound."""
from checks.stdfam import run_std, replay_std

def run(c, a):
    c.rule_text = ("For every registered standard-library function (signatures are read from the real function values) TLC enumerates argument lists "
                   "from pools selected by each parameter's declared type constraint (dynamic constraints instantiated with 18 types), variadic tails "
                   "of 0..2 (thorough 0..3) extra arguments, and injects null, unknown, refined unknown, DynamicVal, dynamically typed null, top-level and "
                   "nested marks and nested unknowns at every position. The harness runs Call, ReturnType and ReturnTypeForValues under recover; TLC "
                   "judges NoGoPanic, NoPanicError, ResultConformsStatic, ResultConformsDynamic, ValuePredictionRejectsSuccess, "
                   "KnownSuccessNotRejectedStatically. Non-trivial = successful call.")
    c.assumptions = ["argument pools are bounded menus; RandomSubset thinning is seeded"]
    c.build_harness()
    if a.replay:
        return replay_std(c, c.load_replay(a.replay))
    ev1 = run_std(c, "call")
    # the same injections on the domain-shaped argument lists of the collection functions
    from checks.c13 import FNS
    jobs, outs = [], []
    for fn in FNS[:-1]:
        out = c.path("c13ivec-%s.ndjson" % fn)
        jobs.append(("C13Gen", {"VFN": fn, "VMODE": "inject", "VTIER": c.tier, "VOUT": out}))
        outs.append(out)
    c.gen_parallel(jobs)
    pairs = [(o, o.replace("c13ivec-", "c13iev-")) for o in outs]
    c.harness_parallel("ops", pairs)
    # conversion functions built for representative target types (MakeToFunc)
    tov = c.path("vec-to.ndjson")
    c.gen_parallel([("MarkGen", {"VFAM": "to", "VTIER": c.tier, "VOUT": tov})])
    toe = c.path("ev-to.ndjson")
    c.harness("ops", toe, inp=tov)
    ev = c.concat([p[1] for p in pairs] + [ev1, toe], c.path("c11events.ndjson"))
    c.sample_events(ev, 2, lambda l: '"ok":true' in l and '"fn":"merge"' in l)
    c.sample_events(ev, 1, lambda l: '"fn":"format"' in l)
    c.trace("StdlibTrace", ev)
