"""C12 - standard functions treat unknown arguments soundly."""
from checks.stdfam import run_std, replay_std

def run(c, a):
    c.rule_text = ("For every registered standard-library function TLC enumerates argument lists from the declared parameter constraints and, for each, "
                   "the weakenings of one argument position (top level or nested member, by an unknown from the refinement menu true of the replaced "
                   "part) plus a thin two-position family; the harness runs the real function on the concrete and on the weakened list; TLC judges "
                   "each pair whose concrete call succeeds: premise Admits(weak, conc), NoNewFailure, ResultAdmits, KnownInKnownOut; plus purity of the "
                   "weakened call over repetitions. Non-trivial = concrete call succeeded and a position was weakened.")
    c.assumptions = ["typed unknowns only (the property quantifies over typed unknown values)", "bytes (capsule) functions not enumerated"]
    c.build_harness()
    if a.replay:
        return replay_std(c, c.load_replay(a.replay))
    ev1 = run_std(c, "weak", prop="C12")
    # domain-shaped argument lists of the collection functions (C13Gen) as further concrete bases
    from checks.c13 import FNS
    jobs, outs = [], []
    for fn in FNS[:-1]:
        out = c.path("c13wvec-%s.ndjson" % fn)
        jobs.append(("C13Gen", {"VFN": fn, "VMODE": "weak", "VTIER": c.tier, "VOUT": out}))
        outs.append(out)
    c.gen_parallel(jobs)
    pairs = [(o, o.replace("c13wvec-", "c13wev-")) for o in outs]
    c.harness_parallel("ops", pairs, args=["prop=C12"])
    # domain-shaped argument lists of the string / number / formatting functions (C14Gen) as further concrete bases
    from checks.c14 import FNS as FNS14
    jobs14, outs14 = [], []
    for i, fn in enumerate(FNS14):
        if ">" in fn:
            continue
        out = c.path("c14wvec-%d.ndjson" % i)
        jobs14.append(("C14Gen", {"VFN": fn, "VMODE": "weak", "VTIER": c.tier, "VOUT": out}))
        outs14.append(out)
    c.gen_parallel(jobs14, seeds=[c.seed * 1000 + i for i in range(len(jobs14))])
    pairs14 = [(o, o.replace("c14wvec-", "c14wev-")) for o in outs14]
    c.harness_parallel("ops", pairs14, args=["prop=C12"])
    ev = c.concat([p[1] for p in pairs] + [p[1] for p in pairs14] + [ev1], c.path("c12events.ndjson"))
    c.sample_events(ev, 2, lambda l: '"ok":true' in l and '"fn:' in l and '"st":"unk"' in l)
    c.trace("StdlibTrace", ev)
