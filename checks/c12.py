"""C12 - standard functions treat unknown arguments soundly."""
from checks.stdfam import run_std, replay_std

def run(c, a):
    c.rule_text = ("For every registered standard-library function TLC enumerates argument lists from the declared parameter constraints and, for each, "
                   "the weakenings of one argument position (top level or nested member, by an unknown from the refinement menu true of the replaced "
                   "part) plus a thin two-position family; the harness runs the real function on the concrete and on the weakened list; TLC judges "
                   "each pair whose concrete call succeeds: premise Admits(weak, conc), NoNewFailure, ResultAdmits, KnownInKnownOut; plus purity of the "
                   "weakened call over repetitions. Non-trivial = concrete call succeeded and a position was weakened.")
    c.assumptions = ["typed unknowns only (the property quantifies over typed unknown values)", "bytes (capsule) functions not enumerated"]
    c.build_harness()
    if a.replay:
        return replay_std(c, c.load_replay(a.replay))
    ev = run_std(c, "weak", prop="C12")
    c.sample_events(ev, 2, lambda l: '"ok":true' in l and '"fn:' in l and '"st":"unk"' in l)
    c.trace("StdlibTrace", ev)
