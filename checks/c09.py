"""C09 - unification returns a type every input really converts to."""
import json

def run(c, a):
    c.rule_text = ("TLC enumerates all lists of 1..2 types over a 30-type core (primitives, placeholders, lists, sets, maps, tuples, objects, nested), "
                   "all 3-lists (thorough) or 3-lists with two positions from a 17-type subset (quick) and a RandomSubset of 4-lists; the harness calls "
                   "Unify and UnifyUnsafe on the real types and applies every returned conversion to TLC-generated values of its input type (known, null, "
                   "unknown); TLC judges NoPanic, OneConversionPerInput, ConvYieldsUnified, NilIffEqual, SafeNeverFails, SafeUsesNoUnsafe, "
                   "SafeOkImpliesUnsafeOk, EqualTypesUnifyToThemselves. Non-trivial = successful unification of not-all-equal types.")
    c.assumptions = ["which type is chosen is not judged (the property does not fix it)", "Project/Concretize faithful"]
    c.build_harness()
    if a.replay:
        rec = c.load_replay(a.replay)
        e = rec["event"]
        vals = {}
        for cv in e.get("convs", []):
            for ap in cv.get("apps", []):
                vals.setdefault(json.dumps(ap["in"]["ty"], sort_keys=True), []).append(ap["in"])
        vec = c.path("replay.ndjson")
        open(vec, "w").write(json.dumps({"lists": [e["types"]], "vals": [{"t": json.loads(k), "vs": v} for k, v in vals.items()]}) + "\n")
        out = c.path("replay-ev.ndjson")
        c.harness("unify", out, inp=vec)
        c.trace("UnifyTrace", out, nshards=1, dedupe=False)
        return
    n = 16
    jobs, outs = [], []
    for i in range(n):
        out = c.path("uvec-%d.ndjson" % i)
        jobs.append(("UnifyGen", {"VTIER": c.tier, "VSHARDI": i, "VSHARDN": n, "VOUT": out}))
        outs.append(out)
    g = c.gen_parallel(jobs, seeds=[c.seed] * n)
    c.note("type lists", g)
    pairs = [(o, o.replace("uvec-", "uev-")) for o in outs]
    c.harness_parallel("unify", pairs)
    ev = c.concat([p[1] for p in pairs], c.path("uevents.ndjson"))
    c.sample_events(ev, 2, lambda l: '"ok":true' in l and '"nil":false' in l)
    c.trace("UnifyTrace", ev)
