"""C15 - JSON encoding round-trips values and agrees with plain JSON."""
import json

def run(c, a):
    c.rule_text = ("JsonDoc.tla models JSON documents (objects as ordered key/value sequences, so order and duplicate keys exist), the type-directed "
                   "encoder MarshalModel (with {value,type} wrappers at placeholder positions and the JSON form of types) and ImpliedTypeModel. "
                   "(a) TLC enumerates wholly known, unmarked, finite values of the bounded universe (plus numbers at the int64/uint64 limits, beyond "
                   "them, 10^30, 0.1 at 512 bits and a 23-digit integer) x every constraint obtained by replacing sub-types by the placeholder; the harness "
                   "marshals with the real encoder, checks validity, tokenizes the bytes with encoding/json (order and duplicates preserved) into an abstract "
                   "document, and unmarshals with the same constraint; TLC judges ValidJSON, DocMirrorsValue (document = MarshalModel), RoundTrip. "
                   "(b) TLC enumerates documents from a grammar (depth <= 2, duplicate keys, nested nulls); the harness renders each in four spellings "
                   "(number spellings 1 / 1.0 / 1e+00 / 10e-1, \\\\u escapes, non-NFC strings, reversed key order, white space): ImpliedTypeIsStructural, "
                   "UnmarshalWithImpliedType, RemarshalSameDocument (up to key order, number spelling, normalization). (c) unknown, marked and infinite "
                   "values (top level and nested) must be rejected with an error. Non-trivial = marshalled against a constraint with a placeholder / structured document.")
    c.assumptions = ["number texts are compared numerically (lattice / landmarks) or by exact decimal identity", "keys and attribute names are single characters"]
    c.build_harness()
    if a.replay:
        rec = c.load_replay(a.replay)
        e = rec["event"]
        vec = c.path("replay.ndjson")
        if e["ev"] == "jd":
            line = {"k": "jd", "docs": [e["doc"]]}
        else:
            line = {"k": e["ev"], "vals": [e["v"]], "tys": [e["ty"]]}
        open(vec, "w").write(json.dumps(line) + "\n")
        out = c.path("replay-ev.ndjson")
        c.harness("jsonc", out, inp=vec)
        c.trace("JsonTrace", out, nshards=1, dedupe=False)
        return
    n = 16
    jobs, outs = [], []
    for i in range(n):
        out = c.path("jvec-%d.ndjson" % i)
        jobs.append(("JsonGen", {"VTIER": c.tier, "VSHARDI": i, "VSHARDN": n, "VOUT": out}))
        outs.append(out)
    c.gen_parallel(jobs)
    pairs = [(o, o.replace("jvec-", "jev-")) for o in outs]
    c.harness_parallel("jsonc", pairs)
    ev = c.concat([p[1] for p in pairs], c.path("jevents.ndjson"))
    c.sample_events(ev, 1, lambda l: '"ev":"jm"' in l and '"value"' in l)
    c.sample_events(ev, 1, lambda l: '"ev":"jd"' in l and '"obj"' in l)
    c.trace("JsonTrace", ev)
    c.extra["exhaustive"] = True
