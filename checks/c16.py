"""C16 - MessagePack encoding round-trips values, including unknown ones."""
import json

def run(c, a):
    c.rule_text = ("Msgpack.tla states the round-trip relation RtOK(original, decoded): same type and known-ness at every position, known parts equal "
                   "(whole and exact-float64 numbers identical), unknown parts admit everything the original admitted (Admits: refinements may be "
                   "approximated, never narrowed or invented). TLC enumerates unmarked values with unknown (every refinement kind, prefixes around and "
                   "beyond the 256-byte limit with multi-byte characters at the cut, infinite and exclusive bounds, bounds at the 64-bit limits) and null "
                   "members at every depth (one and two weakened positions) x the value's type and every single-position placeholder constraint, numbers "
                   "around -2^63, 2^63, 2^64, beyond, exact float64, 0.1 and 1/3 at 512 bits, 10^30, 10^300, +-infinity, under three physical "
                   "representations, and marked values (must be rejected). The harness marshals and unmarshals with the real codec. "
                   "Non-trivial = value marshalled and unmarshalled.")
    c.assumptions = ["bytes are not modelled for this property (token-level inputs are C17's)", "Project/Concretize faithful"]
    c.build_harness()
    if a.replay:
        rec = c.load_replay(a.replay)
        e = rec["event"]
        vec = c.path("replay.ndjson")
        open(vec, "w").write(json.dumps({"vals": [e["v"]], "tys": [e["ty"]]}) + "\n")
        out = c.path("replay-ev.ndjson")
        c.harness("mpack", out, inp=vec)
        c.trace("MsgpackTrace", out, nshards=1, dedupe=False)
        return
    n = 16
    jobs, outs = [], []
    for i in range(n):
        out = c.path("mvec-%d.ndjson" % i)
        jobs.append(("MsgpackGen", {"VTIER": c.tier, "VSHARDI": i, "VSHARDN": n, "VOUT": out}))
        outs.append(out)
    c.gen_parallel(jobs)
    pairs = [(o, o.replace("mvec-", "mev-")) for o in outs]
    c.harness_parallel("mpack", pairs)
    ev = c.concat([p[1] for p in pairs], c.path("mevents.ndjson"))
    c.sample_events(ev, 1, lambda l: '"prefix"' in l and '"ok":true' in l)
    c.sample_events(ev, 1, lambda l: '"lo"' in l and '"ok":true' in l)
    c.trace("MsgpackTrace", ev)
    c.extra["exhaustive"] = True
