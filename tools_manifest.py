#!/usr/bin/env python3
"""Regenerates MANIFEST.json from the table below (kept valid at all times)."""
import json, os, subprocess
HERE = os.path.dirname(os.path.abspath(__file__))

CHECKS = {
 "C07": dict(
   technique="TLC-enumerated type universe replayed into real code; TLC trace validation against TEquals/Conforms/StripOpt; TLC model check of the vocabulary's algebra",
   text="Exhaustive over a bounded type universe: every type and every ordered pair of types TLC generates is built with the real API, and each observed Equals/TestConformance/HasDynamicTypes/WithoutOptionalAttributesDeep/JSON round-trip result is judged by TLC against the specification's TEquals/Conforms/HasDyn/StripOpt, whose own algebra (equivalence, characterisation by substitution, idempotence) is model-checked.",
   design_ref="DESIGN.md section 4 C07",
   note="Bounded universe (depth<=1 quick, selected depth 2 thorough; names {a,b}; capsules c1,c2). Trusted: type projection via public accessors; TLC."),
}

NOT_APPLICABLE = {}

def main():
    props = [json.loads(l)["id"] for l in open(os.path.join(HERE, "properties.jsonl"))]
    checks = []
    for pid in props:
        if pid not in CHECKS:
            continue
        c = CHECKS[pid]
        checks.append({
            "property_id": pid,
            "quick_cmd": "bin/vcheck %s --tier quick" % pid,
            "thorough_cmd": "bin/vcheck %s --tier thorough" % pid,
            "evidence_file": "evidence/%s.json" % pid,
            "replay_cmd_template": "bin/vcheck %s --replay {path}" % pid,
            "engine": "vcheck",
            "level_claimed": {"category": c.get("category", "model_checking"), "text": c["text"], "design_ref": c["design_ref"]},
            "level_note": c["note"],
            "technique": c["technique"],
        })
    na = [{"property_id": p, "reason": NOT_APPLICABLE.get(p, "check not built yet (work in progress); not claimed")} for p in props if p not in CHECKS]
    hooks_commits = []
    try:
        out = subprocess.run(["git", "-C", "/repo", "log", "--format=%H %s"], stdout=subprocess.PIPE, text=True).stdout
        hooks_commits = [l.split()[0] for l in out.splitlines() if " verif-hook:" in l]
    except Exception:
        pass
    m = {
        "version": 1,
        "setup_cmd": "bin/setup",
        "hooks": {
            "guard": "verif",
            "enable": "go build -tags verif (harness module /verif/harness with replace github.com/zclconf/go-cty => /repo)",
            "baseline_off_cmd": "cd /repo && GOFLAGS=-mod=mod GOPROXY=off GOSUMDB=off GOTOOLCHAIN=local go test -vet=off -count=1 ./...",
            "source_commits": hooks_commits,
            "add_only": True,
        },
        "engines": [{"name": "vcheck", "path": "bin/vcheck", "serves_properties": [c["property_id"] for c in checks],
                     "kind_free_text": "python driver: TLC design-level model checks + TLC generators -> Go harness executing real go-cty -> TLC trace validation of recorded events"}],
        "checks": checks,
        "notes": "Verdicts come only from real-code observations rejected by a TLA+ contract rule (exit 1); tool failure/timeouts/model errors are exit 2. Known findings: KNOWN_FINDINGS.txt.",
        "not_applicable": na,
    }
    json.dump(m, open(os.path.join(HERE, "MANIFEST.json"), "w"), indent=1)
    print("checks:", [c["property_id"] for c in checks], "unclaimed:", len(na))

if __name__ == "__main__":
    main()
