#!/usr/bin/env python3
"""Regenerates MANIFEST.json from the table below (kept valid at all times)."""
import json, os, subprocess
HERE = os.path.dirname(os.path.abspath(__file__))

CHECKS = {
 "C07": dict(
   technique="TLC-enumerated type universe replayed into real code; TLC trace validation against TEquals/Conforms/StripOpt; TLC model check of the vocabulary's algebra",
   text="Exhaustive over a bounded type universe: every type and every ordered pair of types TLC generates is built with the real API, and each observed Equals/TestConformance/HasDynamicTypes/WithoutOptionalAttributesDeep/JSON round-trip result is judged by TLC against the specification's TEquals/Conforms/HasDyn/StripOpt, whose own algebra (equivalence, characterisation by substitution, idempotence) is model-checked.",
   design_ref="DESIGN.md section 4 C07",
   note="Bounded universe (depth<=1 quick, selected depth 2 thorough; names {a,b}; capsules c1,c2). Trusted: type projection via public accessors; TLC."),
}

CHECKS.update({
 "C01": dict(
   technique="TLC-enumerated (concrete, weakened) operand tuples replayed into the real operation methods; TLC trace validation with the Admits approximation order; TLC model check of Admits/weakening algebra",
   text="Bounded-exhaustive: for all 21 operation methods TLC enumerates every well-typed operand tuple of a bounded value universe and every weakening of one position (quick) or up to two positions (thorough) at any depth by an unknown drawn from a refinement menu that is true of the replaced part; both the concrete and the weakened call run on the real library and TLC judges each recorded pair (premise Admits(weak, conc); NoNewFailure; ResultAdmits; KnownInKnownOut; NeverNull). The relation Admits and the weakening generator are themselves model-checked (reflexive, transitive, generator sound).",
   design_ref="DESIGN.md section 4 C01",
   note="Universe bounds: numbers on a dyadic lattice plus both infinities, strings over {a,b,c}, collections of width <= 2 and depth <= 2. Trusted: Project/Concretize in the harness (inputs are re-projected and premises re-decided by TLC), TLC."),
 "C02": dict(
   technique="TLC-enumerated wholly known operand tuples replayed into the real operation methods under several physical representations; TLC trace validation against a TLA+ reference semantics (exact rational arithmetic, truth tables, member lookup)",
   text="Bounded-exhaustive: every wholly known (and ill-typed) operand tuple of the bounded universe per operation is executed on the real library and TLC compares the projected result, its type and its acceptance/rejection with the reference semantics Ref of Ops.tla; the reference's own algebra is model-checked.",
   design_ref="DESIGN.md section 4 C02",
   note="Numeric accuracy beyond the small dyadic lattice (huge integers, 512-bit decimals, precision selection) is outside TLA+ integers and is not decided; landmarks are used for order only. Trusted: harness projection, TLC."),
 "C05": dict(
   technique="TLA+ state machine of the refinement builder model-checked by TLC (Faithful, Narrowing, RejectedIsEmpty); every maximal behaviour replayed into the real RefinementBuilder and validated step by step by a TLC trace spec; relational TLC check of safe-prefix continuation safety over a Unicode-risk alphabet",
   text="Model checking plus conformance: Refine.tla is checked exhaustively (about 70k states) and all its maximal behaviours up to the depth bound are replayed against the real builder with NewValue(), range accessors and Range().Includes(candidate) observed after every call; TLC steps the model alongside the recorded trace and rejects any divergence (exact range, collapse to known only when exact, contradictions rejected, consistent calls accepted, Includes answers sound). Prefix safety is checked for every (prefix, continuation) pair over an abstract alphabet of combining marks, Hangul jamo, ZWJ, emoji modifiers, regional indicators, CR/LF and delimiters.",
   design_ref="DESIGN.md section 4 C05",
   note="Depth 3 (thin menu) + depth 2 (full menu) quick; depth 3 full + depth 4 thin thorough. Bounds on a known null and calls foreign to the type are recorded, not judged. Trusted: harness projection, TLC; the normal form of strings is go-cty's own (StringVal)."),
 "C03": dict(
   technique="TLC judgement of complete observed equality/hash/order relations per type group; TLA+ ValueSet state machine (bag-of-classes model) model-checked and its simulated behaviours replayed on real ValueSets with TLC trace validation; implementation-shaped slice model (SetImpl) predicting adversarial histories",
   text="Model checking plus conformance: per type TLC receives the full n x n matrices of RawEquals/Equals/Hash/LessThan/GreaterThan over physical variants (precisions 24/53/64/512 bits, -0, NFD input) and checks equivalence laws, null equality, Equals<=>RawEquals, trichotomy and equal=>same-hash on the whole relation; SetVal is checked over all permutations of its inputs; ValueSetSM.tla (Add/Remove/Has/Copy/Union/Intersection/Subtract/SymmetricDifference/SetVal round trip on three slots) is model-checked and thousands of simulated behaviours plus histories predicted by the slice-level model SetImpl.tla are replayed on real ValueSets, the trace spec comparing the members of every set with the model after every step (membership, Has, Length, iteration order as a function of the members, isolation of the other sets).",
   design_ref="DESIGN.md section 4 C03",
   note="Pool of 12 number elements (6 classes + 5 unknowns); groups of at most 64 physical values per type; simulation is sampled, not exhaustive. Trusted: harness projection, TLC."),
 "C10": dict(
   technique="TLA+ contract of the call protocol (guards over the observed callback sequence and outcome); TLC-enumerated and RandomSubset-sampled specifications x argument lists replayed through real function.Spec values with spy callbacks; TLC trace validation",
   text="Bounded-exhaustive for one parameter (all 16 flag combinations x 3 type constraints x callback behaviours x argument lists of length 0..2 over 10 argument kinds) plus a seeded sample of the full product (0..2 positional + optional variadic, lists up to length 4): each configuration becomes a real function.Spec whose callbacks record the arguments they receive; TLC checks on every recorded call that the implementation ran only after the type check accepted the same arguments, that callback arguments satisfy the declared contract, that errors name an offending argument, that short-circuit results carry the required marks and refinements, that panics come back as errors, and that ReturnTypeForValues agrees.",
   design_ref="DESIGN.md section 4 C10",
   note="Callback behaviours and RefineResult come from a fixed menu; where several arguments offend the contract accepts any offending index (today's order is not pinned). Trusted: spy callbacks, harness projection, TLC."),
 "C19": dict(
   technique="TLA+ definitions of members-by-path, path validity, replacement and path-indexed marks; TLC-enumerated values/paths/replacements replayed into real Walk/Transform/Path.Apply/UnmarkDeepWithPaths; TLA+ PathSet state machine with simulated behaviours replayed on real PathSets; TLC trace validation",
   text="Bounded-exhaustive plus conformance: for every generated value (null, unknown and marked members at every depth) TLC checks the recorded Walk callback log against VisitSet (each member once, parents first, reported paths lead back), the identity Transform, UnmarkDeepWithPaths/MarkWithPaths round trip, Path.Apply on every path of length <= 2 over a 13-step menu (succeeds exactly when ValidPath), and every single-member replacement against ReplaceMember; PathSetSM.tla (Add/AddAllSteps/Remove/Has/Equal/Empty/Union/Intersection/Subtract/SymmetricDifference over hash-colliding paths) is replayed from simulated behaviours with the real set compared to the model after every step.",
   design_ref="DESIGN.md section 4 C19",
   note="Path application into unknown lists/maps is not decided (the property does not fix it). PathSet behaviours are simulated (sampled). Trusted: harness projection of paths and values, TLC."),
 "C08": dict(
   technique="TLA+ contract of conversion requests; TLC-enumerated (value, target type) pairs replayed into real Convert/GetConversion/GetConversionUnsafe; TLC trace validation (conformance, placeholder resolution, identity, idempotence, round trip, unknown/null pass-through with Admits, safe totality)",
   text="Bounded-exhaustive: every generated value (known, null, refined unknown, nested unknown/null/marked members, marked null/unknown, DynamicVal, dynamically typed null) is converted to every target of a 32-type menu plus its own type and every single-position placeholder insertion; TLC judges each recorded request including a second application, the inverse conversion, the offered safe/unsafe conversions, and for unknown inputs that the result admits the conversion of every admitted concrete candidate.",
   design_ref="DESIGN.md section 4 C08",
   note="Reference results only for element-preserving structural conversions; number<->string spellings are judged by round trip. Trusted: harness projection, TLC."),
 "C09": dict(
   technique="TLA+ contract of unification results; TLC-enumerated lists of 1..3 types and sampled 4-lists replayed into real Unify/UnifyUnsafe with every returned conversion applied to generated values; TLC trace validation",
   text="Bounded-exhaustive over a 30-type core for lists of length 1..2 (and 3 in the thorough tier; two positions from a 17-type subset in the quick tier) plus a seeded sample of 4-lists: TLC checks on every recorded call that each returned conversion yields values of the unified type, is absent exactly for inputs equal to the result (placeholder-free), never fails or panics in safe mode, is also offered by GetConversion in safe mode, that equal types unify to themselves and that safe success implies unsafe success.",
   design_ref="DESIGN.md section 4 C09",
   note="Which type is chosen is not judged. Trusted: harness projection, TLC."),
 "C04": dict(
   technique="TLA+ two-run non-interference contract (marked vs UnmarkDeep-ed inputs); TLC-enumerated mark placements over operation methods, conversions, constructors and every standard-library function, replayed into the real API; TLC trace validation",
   text="Bounded-exhaustive: for all operation methods, Convert to a 14-target menu, the collection/structure constructors and all 78 enumerable standard-library functions, TLC enumerates inputs and placements of two marks at the top level and on nested members (combined with unknown and null values); both the marked and the stripped call run on the real code and TLC judges SameOutcome, SameValue, NoInvention, TopMarksKept, DeepMarksKept (by the function's own AllowMarked flags) and SetHoists.",
   design_ref="DESIGN.md section 4 C04",
   note="Two marks; value universe as C01; function argument pools as C11. Trusted: harness projection (marks by name), TLC."),
 "C11": dict(
   technique="TLA+ outcome/typing contract; TLC-enumerated argument lists (from the functions' own declared signatures) with null/unknown/dynamic/mark injections replayed into real Call/ReturnType/ReturnTypeForValues; TLC trace validation",
   text="Bounded enumeration: for each of the 78 enumerable exported functions TLC builds argument lists from per-constraint pools (dynamic constraints instantiated with 18 types), variadic tails, and single-position injections of null, unknown, refined unknown, DynamicVal, dynamically typed null, marks and nested unknowns; TLC judges on every recorded call that nothing panics or reports an internal panic, that results conform to both predicted types and that neither prediction rejects a call that succeeds.",
   design_ref="DESIGN.md section 4 C11",
   note="byteslen/bytesslice (capsule arguments) are not enumerated. Pools are bounded menus thinned with a seeded RandomSubset. Trusted: harness projection, TLC."),
 "C12": dict(
   technique="TLC-enumerated (concrete, weakened) argument lists for every standard-library function replayed into the real functions; TLC trace validation with the Admits approximation order",
   text="Bounded enumeration: for each function and each generated argument list on which the concrete call succeeds, every single-position weakening (top level or nested, refinement menu true of the replaced part) and a thin two-position family are executed; TLC judges NoNewFailure, ResultAdmits, KnownInKnownOut and purity of the weakened call.",
   design_ref="DESIGN.md section 4 C12",
   note="One known finding (setproduct lower length bound) is listed in KNOWN_FINDINGS.txt. Typed unknowns only. Trusted: harness projection, TLC."),
 "C13": dict(
   technique="TLA+ reference semantics (StdlibRef: value, type and reject conditions over sequences/functions/sets); TLC-enumerated domain-shaped and signature-derived argument lists replayed into the real functions; TLC trace validation against the reference",
   text="Bounded-exhaustive per function: TLC enumerates wholly known argument lists shaped for each function's domain and its edges (negative, fractional, out-of-range and infinite indices, sizes and steps; empty collections, duplicates, nulls, list/tuple and map/object forms) and compares every real result with the TLA+ reference (exact value and type, failure exactly where the reference rejects).",
   design_ref="DESIGN.md section 4 C13",
   note="flatten and setproduct, and argument lists needing type unification, are outside the reference (not judged). Trusted: harness projection, TLC."),
 "C14": dict(
   technique="TLA+ reference semantics (TextRef: exact rationals, sequences of abstract characters with the specification's own grapheme-cluster segmentation, a recursive TLA+ parser of the printf-like verb grammar, JSON text, CSV tables, RFC 3339 timestamps with a TLA+ Gregorian calendar); TLC-enumerated domain-shaped argument lists replayed into the real functions; TLC trace validation against the reference",
   text="Bounded-exhaustive per function: TLC enumerates wholly known argument lists (numbers of either sign incl. fractions, infinities and numbers needing more than 53 bits; strings with multi-code-point grapheme clusters; format strings generated from the documented verb grammar with flags, width, precision, argument indices and up to three verbs; timestamps, date formats and durations; JSON-representable values; CSV tables) for 44 functions and compares every real result with the TLA+ reference: equal result where the reference defines one (ResultIsRef), an error only where the reference rejects (FailsOnlyOutsideDomain), and an error where the reference rejects (FailsOutsideDomain); decoding after encoding must give the JSON-implied value.",
   design_ref="DESIGN.md section 4 C14 and section 11",
   note="Restricted scope: results that are not exactly representable on the specification's rationals (log/pow in general, non-dyadic quotients), the float and non-decimal integer verbs (%e %f %g %b %o %x), regex/regexall/regexreplace, title beyond ASCII, quoted CSV fields, fractional seconds and sub-second durations are UNDEF in the reference and not judged; no Go-side oracle is substituted. Trusted: harness projection, TLC."),
 "C06": dict(
   technique="TLA+ well-formedness invariant (Relations!WellFormed plus hook-level NodeOK) evaluated by TLC on every result value recorded while replaying the TLC-generated inputs of the constructor, conversion, standard-library and set families (all families in the thorough tier)",
   text="Invariant over recorded executions: every value returned by a constructor, conversion, function, set operation (and, thorough, operation, unification, call protocol, traversal, decoder) during the bounded-exhaustive drivers of the other properties is projected twice - through every public accessor applicable to its type and through the build-tag hook cty.VerifInspect - and TLC evaluates WellFormed/NodeOK on it: payload shape and Go kind match the type, declared element/attribute types, arity, NFC strings and keys, sets free of marked or equal members with the declared element type in their rules, at most one marker layer, no optional-attribute annotations at any depth.",
   design_ref="DESIGN.md section 4 C06",
   note="Covers exactly the values the other drivers produce. Trusted: accessor-based projection, the read-only hook, TLC."),
 "C15": dict(
   technique="TLA+ model of JSON documents and of the type-directed encoder / implied type (JsonDoc); TLC-enumerated values x constraints and grammar-generated documents replayed into the real Marshal/Unmarshal/ImpliedType with bytes tokenized into abstract documents; TLC trace validation",
   text="Bounded-exhaustive: every generated value x every constraint obtained by replacing sub-types by the placeholder is marshalled by the real encoder; TLC checks that the bytes are valid JSON whose tokenized document equals MarshalModel and that unmarshalling returns an equal value of the same type; every grammar-generated document, rendered in four spellings, must have the structural implied type, unmarshal with it and re-marshal to the same document up to key order, number spelling and normalization; unknown, marked and infinite values must be rejected.",
   design_ref="DESIGN.md section 4 C15",
   note="One known-finding class (type of null / empty collection lost under a nested placeholder) is listed in KNOWN_FINDINGS.txt under its own rule name. Numbers compared numerically on the lattice/landmarks or by exact decimal identity. Trusted: encoding/json tokenizer, harness projection, TLC."),
 "C20": dict(
   technique="TLA+ Session specification with the action property Immutable checked by TLC on recorded histories (simulated step sequences that mutate returned/handed-over Go data, with every live value re-projected after every step); purity/representation rules on repeated calls; goroutine runs under the Go race detector judged by TLC; value-set/path-set state-machine isolation",
   text="Conformance over histories: TLC emits thousands of random step histories over a 14-value store (accessor-then-mutate, constructor-input reuse, value-set copy/mutate, builder reuse, refine twice, derived values); the harness replays them, re-projecting every live value after every step and sub-step, and the trace spec rejects any step after which an existing value reports something different. Every operation call of the bounded universe is repeated and run across physical representations (Pure, RepInvariant) and by 8 goroutines on shared operands in a -race build (results equal the sequential result; any race report is a violation). Copy isolation of ValueSet is re-checked with the ValueSetSM / SetImpl traces.",
   design_ref="DESIGN.md section 4 C20",
   note="Histories are sampled by simulation; the race detector covers the executed operation pairs, not all interleavings. Documented ownership transfers are not mutation targets. Trusted: harness projection, Go race detector, TLC."),
 "C16": dict(
   technique="TLA+ round-trip relation RtOK built on the Admits approximation order; TLC-enumerated values with unknown/null members x placeholder constraints replayed through the real msgpack Marshal/Unmarshal; TLC trace validation",
   text="Bounded-exhaustive: every generated value (unknowns with every refinement kind at one and two positions and any depth, prefixes around/beyond the 256-byte limit with multi-byte characters at the cut, infinite/exclusive/64-bit-limit bounds, nulls, numbers around +-2^63, 2^64 and beyond, exact float64, 0.1 and 1/3 at 512 bits, +-infinity, three physical representations) is marshalled against its type and every single-position placeholder constraint and unmarshalled; TLC checks same type and known-ness at every position, equality of known parts (identity for whole / exact-float64 numbers), that unknown parts admit everything the original admitted, and that marked values are rejected.",
   design_ref="DESIGN.md section 4 C16",
   note="Two known-finding classes (type lost for null/unknown/empty under a nested placeholder; whole numbers needing more than 512 bits) are listed in KNOWN_FINDINGS.txt. Bytes are not modelled here (C17 owns inputs). Trusted: harness projection, TLC."),
 "C17": dict(
   technique="TLA+ outcome predicate for decoder calls with TLC-enumerated token trees (MessagePack trees with lying length fields, refinement maps incl. contradictory ones, JSON documents and type descriptions) turned into bytes by the harness, plus seeded byte-level mutation of valid encodings; TLC trace validation; worker processes to observe crashes",
   text="Bounded enumeration of structured inputs plus seeded exploration of byte-level inputs: every token tree TLC generates (refinement maps over keys 1-6 with ill-typed, duplicate and mutually contradictory entries; arrays/maps with truthful and lying lengths up to 2^31-1; non-string and duplicate keys; foreign, oversize and truncated extensions; NaN/Inf floats; dynamic wrappers with invalid type JSON; JSON documents with duplicate keys and invalid {value,type} wrappers; valid and invalid type descriptions) is decoded against up to 15 target types by msgpack.Unmarshal/ImpliedType and json.Unmarshal/ImpliedType/UnmarshalType; TLC judges no panic, well-formed result conforming to the target, well-formed types, bounded allocation, and rejection of unsatisfiable refinements; a dying worker process is a violation.",
   design_ref="DESIGN.md section 4 C17",
   category="exploration",
   note="Byte-level mutants and random bytes are sampled with VERIF_SEED (not enumerated); the memory bound is judged on runtime.MemStats counters. Trusted: the harness token encoder, harness projection, TLC."),
 "C18": dict(
   technique="TLA+ reference for a fixed family of Go types (implied type, Go->cty, number representability per Go kind by landmark order); TLC-enumerated numbers x Go numeric kinds, abstract Go values and cty values x Go target types replayed through real gocty with reflect-built values; TLC trace validation",
   text="Bounded-exhaustive over the family: every boundary number of every integer width (+-1, +1/2), float32/float64 limits and beyond, huge and infinite numbers x all 12 Go numeric kinds must decode exactly when representable and then store that number; every generated abstract Go value (nil/empty slices, maps, pointers, nested, tagged struct with pointer field, embedded cty.Value) must have the reference implied type, convert to the reference cty value and come back identical; every generated cty value x 19 Go target types must be refused when unknown, null-into-non-nilable or of the wrong shape, without panicking.",
   design_ref="DESIGN.md section 4 C18",
   note="Rounding of numbers that are not exactly representable in the float target is not judged; one known-finding class (non-NFC Go strings) is listed in KNOWN_FINDINGS.txt. Trusted: reflect-based construction/projection of Go values in the harness, TLC."),
})

NOT_APPLICABLE = {}

def main():
    props = [json.loads(l)["id"] for l in open(os.path.join(HERE, "properties.jsonl"))]
    checks = []
    for pid in props:
        if pid not in CHECKS:
            continue
        c = CHECKS[pid]
        checks.append({
            "property_id": pid,
            "quick_cmd": "bin/vcheck %s --tier quick" % pid,
            "thorough_cmd": "bin/vcheck %s --tier thorough" % pid,
            "evidence_file": "evidence/%s.json" % pid,
            "replay_cmd_template": "bin/vcheck %s --replay {path}" % pid,
            "engine": "vcheck",
            "level_claimed": {"category": c.get("category", "model_checking"), "text": c["text"], "design_ref": c["design_ref"]},
            "level_note": c["note"],
            "technique": c["technique"],
        })
    na = [{"property_id": p, "reason": NOT_APPLICABLE.get(p, "check not built yet (work in progress); not claimed")} for p in props if p not in CHECKS]
    hooks_commits = []
    try:
        out = subprocess.run(["git", "-C", "/repo", "log", "--format=%H %s"], stdout=subprocess.PIPE, text=True).stdout
        hooks_commits = [l.split()[0] for l in out.splitlines() if " verif-hook:" in l]
    except Exception:
        pass
    m = {
        "version": 1,
        "setup_cmd": "bin/setup",
        "hooks": {
            "guard": "verif",
            "enable": "go build -tags verif (harness module /verif/harness with replace github.com/zclconf/go-cty => /repo)",
            "baseline_off_cmd": "cd /repo && GOFLAGS=-mod=mod GOPROXY=off GOSUMDB=off GOTOOLCHAIN=local go test -vet=off -count=1 ./...",
            "source_commits": hooks_commits,
            "add_only": True,
        },
        "engines": [{"name": "vcheck", "path": "bin/vcheck", "serves_properties": [c["property_id"] for c in checks],
                     "kind_free_text": "python driver: TLC design-level model checks + TLC generators -> Go harness executing real go-cty -> TLC trace validation of recorded events"}],
        "checks": checks,
        "notes": "Verdicts come only from real-code observations rejected by a TLA+ contract rule (exit 1); tool failure/timeouts/model errors are exit 2. Known findings: KNOWN_FINDINGS.txt.",
        "not_applicable": na,
    }
    json.dump(m, open(os.path.join(HERE, "MANIFEST.json"), "w"), indent=1)
    print("checks:", [c["property_id"] for c in checks], "unclaimed:", len(na))

if __name__ == "__main__":
    main()
